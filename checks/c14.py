"""C14 — try/except/else/finally, raise and return follow Python-like control flow.

Monitor: every body / handler / else / finally / raise body of a generated template holds
``probe('id', _)`` calls (namespace callables) that log their id, the error_type/error_value
bindings visible at that point and the namespace-stack depth; ``boom`` callables inject
exceptions of a chosen class on a chosen invocation; ``callsub`` logs the result of
sub-template calls.  The engine's call outcome (returned value with its type / identity, or
propagated exception class + message) and this event log are compared with the prediction of
a Python-semantics reference interpreter (vlib/c14_util.Model) for the same abstract tree.
Every case is compiled once and rendered several times (same or different namespace / loop
rows): compiled tag objects must not remember anything of an earlier activation.
Besides the probes, the templates read error_type / error_value / error_tb themselves (dtml-var,
expressions, dtml-if), block kinds include the dtml-with spellings that render a block in a new
namespace object, and a fifth of the cases is compiled a second time by another template class of
the public API (security-restricted HTML, String in its own syntax, restricted String) and must
behave the same.
The raising / returning / completing harness objects are not only inserted by plain dtml-var
tags: "via" nodes let every tag that evaluates a name or an expression evaluate them (dtml-var
with options, the entity spelling, dtml-call, the conditions of dtml-if / dtml-elif / dtml-unless,
the sequence of dtml-in, the object of dtml-with, a dtml-let binding, the value of dtml-return),
by name and from the tag's expression, with the name found in the top-level namespace, in a
dtml-with object / mapping or in the current dtml-in item; the model treats the target as an
ordinary call in the expression position of the Python statement of the same name.
"""
import hashlib
import json

from vlib import c14_util as U

ID = 'C14'
LEVEL = 'exploration'
RULE = ('(1) exhaustive handler grid: handler lists of length <=3 over {E1,E2,E3,Other,bare} x class '
        'raised in the body {none,E1,E2,E3,Other} x a second raise in {no block, handler i, else} of each '
        'class x with/without else, each in an outer context (plain, outer try, outer try/finally, loop, '
        'inside a handler, sub-template); (2) exhaustive try/finally grid: body action x finally action '
        '(nothing, raise, return) x context; (3) placement grid: every return form/value and every raise '
        'form/class inside every block kind (in, in-else, with, let, if, else, unless, try body, except, '
        'else, finally, raise body, sub-template, comment), one and two kinds deep, in 7 contexts; '
        '(4) seeded random trees of nested try/raise/return/blocks/sub-templates with fault injection '
        'on the k-th invocation; every such template is compiled once and rendered twice.  '
        '(5) rerender grid: every handler list around a dtml-raise of a COMPUTED class, one compiled '
        'template rendered with 6 different classes, and the same inside a loop whose rows carry the class; '
        '(6) loop grid: per-row data decide whether/what each iteration raises or returns inside a try per '
        'iteration, all 64 row sequences of length 3 per template; (7) seeded random trees reading '
        'per-activation data, 3 environments each.  '
        'Block kinds of (3),(4),(7) include every dtml-with spelling (object, mapping, and the four "only" '
        'spellings that render the block in a NEW namespace; the harness hands those the whole top-level '
        'namespace so that probes stay reachable) and sub-templates called with a plain mapping (own '
        'namespace); "inside dtml-with only" and "inside a handler, inside dtml-with only" are also outer '
        'contexts of (1),(2) and a third form of (5).  Handlers, else, finally and body blocks of every '
        'grid hold a tag group in which the TEMPLATE reads error_type / error_value / error_tb (dtml-var, '
        'expression, dtml-if, _[...]), guarded by dtml-if so that it renders [-] where nothing is bound.  '
        'Every 5th case of every part is compiled and compared once more with a template class carrying '
        'the DocumentTemplate.security.RestrictedDTML mix-in (AccessControl guards on the namespace; default '
        'policy, anonymous user; harness objects declare themselves public), every other of those with plain '
        'sub-templates; one in six of these extra compilations uses DT_String.String with the source '
        'rewritten into its %(...) syntax, one in six the restricted String.  '
        '(8) carrier grid: a harness object (probe; callable raising one of 9 classes incl. KeyError / '
        'IndexError / AttributeError / NameError / LookupError; callable whose class is per-render data; '
        'sub-template that raises / returns a false or true value / completes, by all 3 call routes; a plain '
        'VALUE whose __str__ / __bool__ / second item raises, for the tags that insert text / test truth / '
        'iterate) is '
        'evaluated by each of 12 carrier tags (dtml-var plain / null= / size=, &dtml-name;, dtml-call, '
        'dtml-if, dtml-elif, dtml-unless, dtml-in, dtml-with, dtml-let, dtml-return) x form (by name, '
        'expr=, "expr") x where the namespace finds the name (top level, dtml-with object, dtml-with '
        'mapping, dtml-in row mapping, dtml-in item object): full product in both tiers; the position of '
        'the tag (try body with matching handlers, try body with non-matching handlers under a finally, '
        'handler, else, finally with a pending exception, loop of tries) rotates in quick and is a full '
        'factor in thorough.  The random trees of (4),(7) draw such via nodes too (1 node in 10).  distinct = distinct (template source, sub-template '
        'sources, environment, template class); '
        'non-trivial = the model executes at least one raise or return, or renders an else/finally block')
ASSUMPTIONS = ['a dtml-raise name that is neither a builtin nor a zExceptions class raises *some* Exception '
               'subclass (the statement does not fix which); only bare/custom-named handlers surround it',
               'an exception raised while rendering the body of a dtml-raise may either propagate or be '
               'replaced by the raise tag\'s own exception: the statement is silent, both are accepted',
               '"message" of an exception = its single str argument (args == (msg,)) or str(exc)',
               'error_value is the caught exception instance (Try docstring: "the caught exception\'s value"), '
               'error_type its class name; error_tb (Try docstring: available inside the except blocks) must '
               'be readable and true where the template reads it inside a handler; nothing is demanded of it '
               'outside a handler and probes only count it',
               'dtml-var of error_value must give the message only for classes whose str(exception) is the '
               'message; for the others (KeyError ...) and for unknown raise names that text is not judged',
               'dtml-with ... only: the block sees the given object and nothing else (DT_With / dtml docs), so '
               'error_type / error_value of an enclosing handler and rows of an enclosing loop are not visible '
               'in it; the same holds in a sub-template called with a plain mapping',
               'a security-restricted template class with objects that all declare themselves public must '
               'behave exactly like the plain class (guards decide about access, not about control flow)',
               'a sub-template inserted with <dtml-var sub> contributes str(value) of its call result',
               'a harness callable / sub-template evaluated by a tag (condition of dtml-if / dtml-elif / '
               'dtml-unless, target of dtml-call, sequence of dtml-in, object of dtml-with, dtml-let binding, '
               'value of dtml-return, dtml-var with options) is an ordinary call at that place: an exception it '
               'raises is "raised by the try body / handler / else / finally" that holds the tag, whatever its '
               'class; its value decides the condition by Python truth, is inserted as str(value), or is returned',
               'a value that raises when the tag asks for its text (inserting tags), truth (conditions) or '
               'items (dtml-in) makes the enclosing block raise; which of these a tag asks first is not judged',
               'no harness exception carries the name of the evaluated variable as its message (DT_If docs: a '
               'condition name that is not defined is false; a KeyError about that very name is not judged)',
               'dtml-var null=: None and false values with empty text give the null text, 0 is inserted '
               '(DT_Var docstring); other false values are not judged',
               'an exception raised while computing the CLASS expression of dtml-raise is outside the '
               'statement and not generated']
SHARD_TIMEOUT = {'quick': 900, 'thorough': 3400}
NSHARDS = {'quick': 16, 'thorough': 32}

MECH_RET_IN_RAISE = 'return-inside-raise-body-swallowed'

BLOCK_KINDS = ['in', 'with', 'with only', 'let', 'if', 'unless', 'try body', 'except', 'else', 'finally',
               'raise body', 'sub-template']
TRY_SEMANTICS = ['try: handler chosen by exact name', 'try: handler chosen by base-class name',
                 'try: handler chosen bare', 'try: no handler matches, propagates',
                 'try: exception inside handler propagates', 'try: exception inside else propagates',
                 'try: else rendered', 'try: no exception, no else', 'try: return passes the handlers',
                 'try: return inside handler', 'call ended by return', 'return inside raise body']
FIN_SEMANTICS = ['finally: pending %s, finally %s' % (p, f) for p in ('none', 'exception', 'return')
                 for f in ('completes', 'raises', 'returns')]


def plan(tier, seed):
    return [{} for _ in range(NSHARDS[tier])]


# ---------------------------------------------------------------- engine side
class W:
    # harness objects declare themselves public: under a security-restricted template class the
    # standard AccessControl policy then lets the namespace lookups of this workload through
    __allow_access_to_unprotected_subobjects__ = 1
    wattr = 'w'


class Holder:
    """An object whose attributes are the entries of a namespace dict (dtml-with <object> only)."""
    __allow_access_to_unprotected_subobjects__ = 1

    def __init__(self, d):
        self.__dict__['_d'] = d

    def __getattr__(self, k):
        try:
            return self.__dict__['_d'][k]
        except KeyError:
            raise AttributeError(k)


KLASSES = ['plain', 'restricted', 'mixed', 'string', 'restricted-string']
_classes = {}
_TAG = None


def to_string_syntax(src):
    """The same template in the %(...) syntax of DT_String.String (DT_String docstrings:
    ``%(name args)s`` inserts, ``%(tag args)[`` ... ``%(tag)]`` is a block, ``%(tag args)!`` a
    non-block command).  Purely textual; the generated sources hold no '%' and no '>' in quotes."""
    global _TAG
    import re
    if _TAG is None:
        _TAG = re.compile(r'<(/?)dtml-([a-z]+)((?:[^>"]|"[^"]*")*)>')
    if '%' in src:
        raise ValueError('literal % in a generated source')

    def f(m):
        close, name, args = m.group(1), m.group(2), m.group(3).strip()
        if close:
            return '%%(%s)]' % name
        if args.startswith('"'):
            args = 'expr=' + args
        end = 's' if name == 'var' else '!' if name in ('return', 'call') else '['
        return '%%(%s%s)%s' % (name, ' ' + args if args else '', end)
    # the entity spelling &dtml-name; belongs to the HTML syntax only: the String spelling of the
    # same insertion is a var tag with html_quote
    src = re.sub(r'&dtml-([A-Za-z0-9_]+);', r'<dtml-var \1 html_quote>', src)
    return _TAG.sub(f, src)


def template_classes(klass):
    """(class of the called template, class of its sub-templates).  'restricted': HTML with the
    DocumentTemplate.security.RestrictedDTML mix-in (the namespace carries the AccessControl
    guards, as for through-the-web DTML in Zope; the process keeps the default security policy
    and an anonymous user); 'mixed': restricted caller, plain sub-templates; 'string' /
    'restricted-string': DT_String.String and its %(...) syntax, plain / with the mix-in."""
    if not _classes:
        from DocumentTemplate.DT_HTML import HTML
        from DocumentTemplate.DT_String import String
        from DocumentTemplate.security import RestrictedDTML

        class RestrictedHTML(RestrictedDTML, HTML):
            pass

        class RestrictedString(RestrictedDTML, String):
            pass
        _classes.update({'plain': (HTML, HTML), 'restricted': (RestrictedHTML, RestrictedHTML),
                         'mixed': (RestrictedHTML, HTML), 'string': (String, String),
                         'restricted-string': (RestrictedString, RestrictedString)})
    return _classes[klass]


def msg_of(e):
    if len(e.args) == 1 and isinstance(e.args[0], str):
        return e.args[0]
    return str(e)


class Compiled:
    """One case compiled ONCE (template and sub-templates); render(env) runs the same compiled
    objects again with the namespace built for that environment and returns what was observed."""

    def __init__(self, HTML, case):
        self.case = case
        self.log = []
        self.herr = []
        self.booms = {}
        self.subs = {}
        self.ns = {}
        self.klass = case.get('klass', 'plain')
        if self.klass != 'plain' or HTML is None:
            HTML, SUB = template_classes(self.klass)
        else:
            SUB = HTML
        style = self.style = case.get('style', 'name')
        self.base = {'probe': self.probe, 'boom': self.boom, 'vboom': self.vboom, 'callsub': self.callsub,
                     'callfresh': self.callfresh, 'elog': self.elog,
                     'cls': U.resolve, 'box': Box, 'wobj': W(), 'wmap': {'wm': 1}, 't_true': 1, 't_false': 0,
                     'seq0': [], 'seq1': [1], 'seq2': [1, 2], 'seq3': [1, 2, 3]}
        ns = self.base
        ns.update(U.CUSTOM)
        for k, v in U.RV.items():
            ns['rv_' + k] = v
        trees = [case['tree']] + list(case.get('subs', {}).values())
        conv = to_string_syntax if 'string' in self.klass else (lambda x: x)
        for key, nodes in case.get('subs', {}).items():
            self.subs[key] = ns['sub_' + key] = SUB(conv(U.to_src(nodes, style)))
        via_of = {}
        for tree in trees:
            for n, _ in U.walk(tree):
                if n[0] == 'via':
                    via_of[id(n[4])] = n
        for tree in trees:
            for n, _ in U.walk(tree):
                ent = self.entry(n)
                if ent is not None:
                    self.install(ns, ent[0], ent[1], via_of.get(id(n)))
        self.src = conv(U.to_src(case['tree'], style))
        self.subsrc = sorted((k, conv(U.to_src(v, style))) for k, v in case.get('subs', {}).items())
        self.tmpl = HTML(self.src)

    def entry(self, n):
        """(namespace name, object rendered under that name) of a harness node, or None."""
        k = n[0]
        if k == 'probe':
            return 'P_' + n[1], Named(self.probe, n[1])
        if k == 'boom':
            return 'X_' + n[1], Named(self.boom, n[1], n[2], n[3], n[4])
        if k == 'vboom':
            return 'X_' + n[1], Named(self.vboom, n[1], n[2])
        if k == 'pboom':
            return 'PB_' + n[1], Proto(self, n[1], U.resolve(n[2]), n[3])
        if k == 'sub' and n[2] == 'call':
            return 'C_' + n[1], Named(self.callsub, n[1])
        if k == 'sub' and n[2] == 'fresh':
            return 'F_' + n[1], Named(self.callfresh, n[1])
        if k == 'sub' and n[2] == 'var':
            return 'sub_' + n[1], self.subs[n[1]]
        return None

    def install(self, ns, name, obj, via):
        """Put a harness object where the template will look for it: the top-level namespace, or
        (target of a name-form via node) the namespace layer named by the node's home."""
        if via is None or via[2] != 'name':
            ns[name] = obj
            return
        carrier, home = via[1], via[3]
        if carrier in ('in', 'with') and not isinstance(obj, Proto):
            if isinstance(obj, Named):
                getter = obj.__render_with_namespace__
            else:
                getter = (lambda md, t=obj: t(None, md))
            obj = Conv(getter, (lambda v: [v]) if carrier == 'in' else Box)
        name = U.via_name(via)
        if home == 'top':
            ns[name] = obj
            return
        if ns.get(name) is obj:
            del ns[name]
        if home == 'withobj':
            ns['hobj_' + name] = Holder({name: obj})
        elif home == 'withmap':
            ns['hmap_' + name] = {name: obj}
        elif home == 'rowmap':
            ns['hrows_' + name] = [{name: obj}]
        elif home == 'rowobj':
            ns['hitems_' + name] = [Holder({name: obj})]
        else:
            raise ValueError(home)

    # -- probes (namespace callables / objects)
    def bound(self, md):
        try:
            present = [k for k in ('error_type', 'error_value', 'error_tb') if md.has_key(k)]
            if not present:
                return None
            if 'error_type' not in present or 'error_value' not in present:
                return ['partial'] + present
            ev = md.getitem('error_value', 0)
            et = md.getitem('error_type', 0)
        except Exception as e:
            # the namespace refuses to say whether / what is bound (e.g. a guard denies the
            # lookup): that is an observation about the engine, not a harness fault
            return ['unreadable', type(e).__name__]
        return [et, type(ev).__name__,
                msg_of(ev) if isinstance(ev, BaseException) else repr(ev),
                'error_tb' in present]

    def elog(self, i, et, ev, tb):
        """Called from a template expression with the three handler variables as the template
        itself read them."""
        try:
            self.log.append(['e', i, [et, type(ev).__name__,
                                      msg_of(ev) if isinstance(ev, BaseException) else repr(ev),
                                      bool(tb)], None])
        except Exception as e:
            self.herr.append('elog %s: %r' % (i, e))
        return '[e]'

    def probe(self, i, md):
        try:
            self.log.append(['p', i, self.bound(md), len(md._data)])
        except Exception as e:      # a harness fault must not look like a DTML exception
            self.herr.append('probe %s: %r' % (i, e))
        return '{%s}' % i

    def boom(self, i, cls, msg, at, md):
        try:
            c = self.booms[i] = self.booms.get(i, 0) + 1
            self.log.append(['b', i, self.bound(md), len(md._data)])
            k = U.resolve(cls)
        except Exception as e:
            self.herr.append('boom %s: %r' % (i, e))
            return ''
        if at == 0 or c == at:
            raise k(msg)
        return '{%s}' % i

    def vboom(self, i, var, md):
        try:
            self.log.append(['b', i, self.bound(md), len(md._data)])
            name = md.getitem('bx_' + var, 0)
            k = U.resolve(name) if name else None
        except Exception as e:
            self.herr.append('vboom %s: %r' % (i, e))
            return ''
        if k is not None:
            raise k('m-' + i)
        return '{%s}' % i

    def callsub(self, key, md):
        self.log.append(['sub>', key])
        try:
            r = self.subs[key](None, md)
        except Exception as e:
            self.log.append(['sub<', key, ['exc', type(e).__name__, msg_of(e)]])
            raise
        self.log.append(['sub<', key, ['val', U.enc(r)]])
        return r if isinstance(r, str) else '<%s>' % type(r).__name__

    def callfresh(self, key, md):
        """Sub-template called with a plain mapping (the top-level namespace of this render), not
        with the caller's namespace object: the callee builds a namespace of its own."""
        self.log.append(['sub>', key])
        try:
            r = self.subs[key](None, self.ns)
        except Exception as e:
            self.log.append(['sub<', key, ['exc', type(e).__name__, msg_of(e)]])
            raise
        self.log.append(['sub<', key, ['val', U.enc(r)]])
        return r if isinstance(r, str) else '<%s>' % type(r).__name__

    # -- one render
    def render(self, env):
        self.log = []
        self.herr = []
        self.booms = {}
        ns = self.ns = dict(self.base)
        if env:
            ns.update(conv_env(env))
        # the whole top-level namespace again as one mapping / one object (dtml-with ... only)
        ns['ns_map'] = ns
        ns['ns_obj'] = Holder(ns)
        exc = None
        try:
            r = self.tmpl(None, ns)
            outcome = ['val', U.enc(r)]
        except Exception as e:
            exc = e
            outcome = ['exc', type(e).__name__, msg_of(e)]
        return outcome, self.log, self.herr, exc


class Box:
    """What the harness hands to dtml-with when the tag's object is computed from a target."""
    __allow_access_to_unprotected_subobjects__ = 1

    def __init__(self, v):
        self.boxed = v


class Proto:
    """A namespace VALUE (nothing to call) that raises when asked for its text, its truth or its
    second item; every such request is logged."""
    __allow_access_to_unprotected_subobjects__ = 1

    def __init__(self, comp, i, cls, msg):
        self._c = comp
        self._a = (i, cls, msg)

    def _fail(self, proto):
        i, cls, msg = self._a
        self._c.log.append(['o', i, proto])
        raise cls(msg)

    def __str__(self):
        self._fail('str')

    def __bool__(self):
        self._fail('bool')

    def __len__(self):
        return 2

    def __getitem__(self, k):
        if k == 0:
            return 'item'
        self._fail('seq')


class Conv:
    """Namespace object rendered by name: conv(value of the wrapped target)."""

    def __init__(self, getter, conv):
        self.getter = getter
        self.conv = conv

    def __render_with_namespace__(self, md):
        return self.conv(self.getter(md))


class Named:
    """Namespace object rendered by name: the lookup hands it the namespace."""

    def __init__(self, f, *args):
        self.f = f
        self.args = args

    def __render_with_namespace__(self, md):
        return self.f(*(self.args + (md,)))


def conv_env(env):
    """Environment (JSON) -> namespace entries; a variable whose value is None is not defined."""
    out = {}
    for k, v in env.items():
        if v is None:
            continue
        kind, var = k.split('_', 1)
        if kind == 'cv':
            out[k] = U.resolve(v)
            out['cn_' + var] = v
        elif kind == 'dv':
            out[k] = U.RV[v]
        elif kind == 'rows':
            out[k] = [conv_env(r) for r in v]
        else:
            out[k] = v
    return out


# ---------------------------------------------------------------- comparison
def same_bound(exp, got):
    if exp is None or got is None:
        return exp is None and got is None
    if got[0] in ('partial', 'unreadable'):
        return False
    cls, msg = exp
    if cls == '?':
        return got[0] == got[1] and got[0] not in U.CUSTOM and U.text_eq(msg, got[2])
    return got[0] == cls and got[1] == cls and U.text_eq(msg, got[2])


def same_outcome(exp, got, exc):
    """exc: the engine's exception object when available (class identity is then checked too)."""
    if exp[0] != got[0]:
        return False
    if exp[0] == 'val':
        return U.enc_eq(exp[1], got[1])
    if exp[1] == '?':
        return got[1] not in U.CUSTOM and U.text_eq(exp[2], got[2])
    if exp[1] != got[1] or not U.text_eq(exp[2], got[2]):
        return False
    want = U.resolve(exp[1])
    return exc is None or want is None or type(exc) is want


def diff(model_out, model_trace, outcome, log, exc):
    """List of human-readable disagreements (empty = engine behaves as this model predicts)."""
    probs = []
    if not same_outcome(model_out, outcome, exc):
        probs.append('call outcome %r, model %r' % (outcome, model_out))
    # per-probe render counts first: "rendered exactly once" is a count
    cnt_e, cnt_m = {}, {}
    for ev in log:
        if ev[0] in ('p', 'b', 'e', 'o'):
            cnt_e[ev[1]] = cnt_e.get(ev[1], 0) + 1
    for ev in model_trace:
        if ev[0] in ('p', 'b', 'e', 'o'):
            cnt_m[ev[1]] = cnt_m.get(ev[1], 0) + 1
    for i in sorted(set(cnt_e) | set(cnt_m)):
        if cnt_e.get(i, 0) != cnt_m.get(i, 0):
            probs.append('probe %s rendered %d time(s), model %d' % (i, cnt_e.get(i, 0), cnt_m.get(i, 0)))
            if len(probs) > 4:
                break
    n = min(len(log), len(model_trace))
    for j in range(n):
        g, m = log[j], model_trace[j]
        ok = g[0] == m[0] and g[1] == m[1]
        if ok and g[0] in ('p', 'b'):
            if not same_bound(m[2], g[2]):
                probs.append('at probe %s error_type/error_value visible as %r, model %r' % (g[1], g[2], m[2]))
                break
        elif ok and g[0] == 'e':
            # what the template's own expression read; error_tb must be there too (Try docstring)
            if not same_bound(m[2], g[2]) or not g[2][3]:
                probs.append('expression in the handler read error_type/error_value/error_tb as %r, model %r'
                             % (g[2], m[2]))
                break
        # 'o' events (a value asked for its text / truth / items): that it happened, and where in
        # the sequence, is compared; which of the three the tag asked first is the tag's business
        elif ok and g[0] == 'sub<':
            if not same_outcome(m[2], g[2], None):
                probs.append('sub-template %s call gave %r, model %r' % (g[1], g[2], m[2]))
                break
        if not ok:
            probs.append('event %d is %r, model %r' % (j, g[:2], m[:2]))
            break
    else:
        if len(log) != len(model_trace):
            probs.append('%d events, model %d' % (len(log), len(model_trace)))
    if not probs:
        depth = {}
        for g, m in zip(log, model_trace):
            if g[0] in ('p', 'b'):
                depth.setdefault(m[3], set()).add(g[3])
        for tok, ds in depth.items():
            if len(ds) > 1:
                probs.append('namespace stack depth differs between probes of one block: %r' % sorted(ds))
                break
    return probs


def case_key(case):
    h = hashlib.blake2b(json.dumps(case, sort_keys=True).encode(), digest_size=6).hexdigest()
    return '%s_%s' % (case.get('part', 'case'), h)


def check_render(ctx, comp, case, env, ri, varied, tally):
    """One render of the compiled case under `env`, compared with the model.  True = agrees."""
    spec = U.Model(case, 'propagate', 'propagate', env)
    m_out, m_trace = spec.run()
    models = [('spec', m_out, m_trace)]
    if U.has_fallible_raise_body(case):
        a_out, a_trace = U.Model(case, 'mask', 'propagate', env).run()
        if (a_out, a_trace) != (m_out, m_trace):
            models.append(('spec, raise-body exception replaced', a_out, a_trace))
            if tally:
                ctx.count('cases where the statement leaves two behaviours open')
    outcome, log, herr, exc = comp.render(env)
    for k, v in spec.varied.items():
        varied.setdefault(k, []).extend(v)
    st = spec.stats
    if tally:
        nontrivial = bool(sum(v for k, v in st.items()
                              if k.startswith(('raise ', 'return value', 'finally:', 'try: else'))))
        desc = (comp.src, comp.subsrc, json.dumps(env, sort_keys=True) if env else None)
        if comp.klass != 'plain':
            desc += (comp.klass,)
        ctx.case(desc, nontrivial)
    if herr:
        ctx.inconclusive('harness fault inside a probe: %s' % herr[0])
        return True
    ctx.count('monitor:outcome comparisons')
    ctx.count('monitor:probe events compared', len(log))
    guarded = 'restricted' in comp.klass or comp.klass == 'mixed'
    if 'string' in comp.klass:
        ctx.count('monitor:outcome comparisons on DT_String.String templates')
    if guarded:
        ctx.count('monitor:outcome comparisons under a security-restricted template class')
    ne = sum(1 for ev in log if ev[0] == 'e')
    if ne:
        ctx.count('monitor:handler variables read by a template expression, compared', ne)
    if ri:
        ctx.count('monitor:comparisons on a 2nd..nth render of one compiled template')
    if tally:
        for k, v in st.items():
            ctx.table('semantics', k, v)
        for what in ('return', 'raise'):
            for k, v in spec.inside[what].items():
                ctx.table(what + ' executed inside', k, v)
        ctx.table('outcome kinds', m_out[0] if m_out[0] == 'exc' else m_out[1].split(':')[0])
        for ev in log:
            if ev[0] in ('p', 'b') and ev[2] and ev[2][0] not in ('partial', 'unreadable'):
                ctx.count('monitor:probes seeing error_type bound')
                if guarded:
                    ctx.count('monitor:probes seeing error_type bound under guards')
                if ev[2][3]:
                    ctx.count('monitor:probes seeing error_tb bound')
                break
        for k, v in st.items():
            if guarded and k.startswith('einfo: handler variables read by form'):
                ctx.table('semantics under guards', k, v)
            if guarded and k in ('call ended by return', 'with spelling only', 'with spelling maponly',
                                 'with spelling expronly', 'with spelling exprmaponly'):
                ctx.table('semantics under guards', k, v)
        if m_out[0] == 'exc' and m_out[1] == '?' and outcome[0] == 'exc' and outcome[1] not in U.CUSTOM:
            ctx.table('class raised for an unknown name', outcome[1])
    best = None
    for name, o, t in models:
        probs = diff(o, t, outcome, log, exc)
        if not probs:
            if tally and len(models) > 1:
                ctx.table('open behaviour taken', name)
            return True
        if best is None:
            best = probs
    # ---- a refutation: classify by mechanism
    mech = None
    if U.has_return_in_raise_body(case):
        for pe in ('propagate', 'mask'):
            d_out, d_trace = U.Model(case, pe, 'mask', env).run()
            if not diff(d_out, d_trace, outcome, log, exc):
                # exactly what "the raise tag swallows a return rendered in its body and raises its
                # own exception with a placeholder message" predicts, and nothing else is off
                mech = MECH_RET_IN_RAISE
                break
    rcase = dict(case)
    if case.get('renders'):
        rcase['renders'] = case['renders'][:ri + 1]     # earlier renders may have left state behind
    else:
        rcase['repeat'] = ri + 1
    what = '; '.join(best[:4])
    if ri:
        what = 'render #%d of the same compiled template: %s' % (ri + 1, what)
    ctx.violation(what, rcase, mech=mech, key=case_key(rcase),
                  detail={'source': comp.src, 'subs': dict(comp.subsrc), 'environment': env,
                          'template_class': comp.klass,
                          'render_index': ri, 'engine_outcome': outcome,
                          'model_outcome': m_out, 'engine_events': log[:60], 'model_events': m_trace[:60]})
    return False


def check_case(ctx, HTML, case):
    """Compile once, render once per environment (cases without environments are rendered
    `repeat` times, default twice: a compiled template must not remember anything of a render)."""
    comp = Compiled(HTML, case)
    ctx.count('cases:' + case.get('part', '?'))
    envs = case.get('renders') or [None] * int(case.get('repeat', 2))
    varied = {}
    ok = True
    for ri, env in enumerate(envs):
        tally = bool(case.get('renders')) or ri == 0
        if not check_render(ctx, comp, case, env, ri, varied, tally):
            ok = False
            break                       # later renders of a template already off are not informative
    # one tag object, several activations, different results: the situation in which per-render
    # data remembered by a compiled tag becomes visible
    kinds = {'vraise': 'computed raise', 'vreturn': 'data return', 'vboom': 'data fault', 'try': 'try'}
    seen = set()
    for tree in [case['tree']] + list(case.get('subs', {}).values()):
        for n, _ in U.walk(tree):
            v = varied.get(id(n))
            if v and len(set(v)) > 1 and n[0] in kinds and n[0] not in seen:
                seen.add(n[0])
                ctx.count('varied:cases where one %s tag object gave different results' % kinds[n[0]])
                if n[0] in ('vraise', 'try') and v[0] != v[1]:
                    ctx.count('varied:%s differs between 1st and 2nd activation' % kinds[n[0]])
    return ok, comp


# ---------------------------------------------------------------- workload
ANCHORS = [('Try.render_try_except', 'DocumentTemplate.DT_Try', 'Try.render_try_except'),
           ('Try.render_try_finally', 'DocumentTemplate.DT_Try', 'Try.render_try_finally'),
           ('Try.find_handler', 'DocumentTemplate.DT_Try', 'Try.find_handler'),
           ('Raise.render', 'DocumentTemplate.DT_Raise', 'Raise.render'),
           ('ReturnTag.render', 'DocumentTemplate.DT_Return', 'ReturnTag.render'),
           ('String.__call__', 'DocumentTemplate.DT_String', 'String.__call__')]
# helpers whose presence is an implementation detail: counted when there, never required
OPTIONAL_ANCHORS = [('Try.match_base', 'DocumentTemplate.DT_Try', 'Try.match_base')]


def install_reach(ctx):
    """Reach counters on the anchor functions.  Anything missing (renamed / removed by a
    refactoring) is a counter and a diagnosis line in the coverage record; it never stops the
    behavioural comparison and does not by itself make the run inconclusive."""
    import importlib
    try:
        from vlib.reach import Reach
        reach = Reach()
    except Exception as e:
        ctx.count('reach:unavailable')
        return None
    for label, modname, path in ANCHORS + OPTIONAL_ANCHORS:
        try:
            obj = importlib.import_module(modname)
            for a in path.split('.'):
                obj = getattr(obj, a)
            reach.watch(label, obj)
        except Exception:
            ctx.count('anchor missing:' + label)
    try:
        reach.start()
    except Exception:
        ctx.count('reach:unavailable')
        return None
    return reach


def run(ctx, spec):
    from DocumentTemplate.DT_HTML import HTML
    reach = install_reach(ctx)
    quick = ctx.tier == 'quick'
    shard, nsh = ctx.shard, ctx.nshards
    sampled = {}
    nstyle = [0]
    nfault = [0]

    def do(case):
        # every 6th case calls its probes from expressions, the others render them by name
        nstyle[0] += 1
        case['style'] = 'expr' if nstyle[0] % 6 == 0 else 'name'
        ctx.count('probe style:' + case['style'])
        ctx.count('template class:plain')
        try:
            ok, comp = check_case(ctx, HTML, case)
            if ok and nstyle[0] % 5 == 1:
                # every 5th case (both probe styles) once more, compiled by another template class of the
                # public API:
                # security-restricted HTML (also with plain sub-templates), DT_String.String in its
                # own syntax, restricted String: neither guards nor syntax may change anything
                rcase = dict(case)
                rcase['klass'] = ('restricted', 'mixed' if case.get('subs') else 'restricted',
                                  'restricted', 'string', 'restricted', 'restricted-string')[(nstyle[0] // 5) % 6]
                ctx.count('template class:' + rcase['klass'])
                check_case(ctx, HTML, rcase)
        except Exception:
            # a fault of the harness / model on one case must not stop the workload
            import traceback
            nfault[0] += 1
            if nfault[0] <= 3:
                ctx.inconclusive('harness error on a %s case: %s' % (case.get('part'), traceback.format_exc()[-700:]))
            ctx.count('harness errors on single cases')
            return
        part = case['part']
        sampled[part] = sampled.get(part, 0) + 1
        if ok and ctx.shard < 2 and sampled[part] == 3 + 2 * ctx.shard:
            env = (case.get('renders') or [None])[-1]
            outcome, log, _, _ = comp.render(env)
            ctx.sample({'part': part, 'source': comp.src, 'subs': dict(comp.subsrc), 'environment': env,
                        'renders_of_this_template': len(case.get('renders') or [0, 0]),
                        'engine_outcome': outcome, 'engine_events': [e[:3] for e in log[:12]]})

    # (1) handler grid
    for i, params in U.grid_handler_cases():
        if i % nsh != shard:
            continue
        how = U.HOWS[i % len(U.HOWS)]
        if quick:
            wrappers = [U.WRAPPERS[(i // len(U.HOWS)) % len(U.WRAPPERS)]]
        else:
            wrappers = U.WRAPPERS
        for wi, w in enumerate(wrappers):
            do(U.build_handler_case(params, U.HOWS[(i + wi) % len(U.HOWS)] if not quick else how, w))
        if i % 7 == 3 and len(params[0]) >= 2:
            ctx.count('handler grid: one except tag naming two classes')
            do(U.build_handler_case(params, how, 'none', merge=True))
    # (2) try/finally grid
    for i, case in enumerate(U.grid_finally_cases()):
        if i % nsh == shard:
            do(case)
    # (3) placement grid
    acts = U.placement_actions()
    i = 0
    for kind in U.KINDS_ONE:
        for act in acts:
            for cx in U.PCONTEXTS:
                i += 1
                if i % nsh == shard and U.placement_allowed([kind], act, cx):
                    do(U.build_placement([kind], act, cx, i))
    i = 0
    stride = 16 if quick else 1
    for k1 in U.KINDS:
        for k2 in U.KINDS:
            for act in acts:
                for cx in U.PCONTEXTS:
                    i += 1
                    if i % nsh != shard or (i // nsh) % stride != (ctx.seed % stride):
                        continue
                    if U.placement_allowed([k1, k2], act, cx):
                        ctx.count('placement: two kinds deep')
                        do(U.build_placement([k1, k2], act, cx, i))
    # (4) seeded random trees
    nrand = (6000 if quick else 70000) // nsh
    gen = U.RandomTrees(ctx.rng, 3 if quick else 4, 2 if quick else 3)
    for _ in range(nrand):
        case = gen.case()
        ctx.table('random trees by try nesting depth', U.try_depth(case['tree']))
        do(case)
    # (5) one compiled template, many environments: computed classes around every handler list
    for i, case in enumerate(U.grid_rerender_cases()):
        if i % nsh == shard:
            do(case)
    # (6) loops whose rows decide what each iteration's try sees
    for i, case in enumerate(U.grid_loop_cases()):
        if i % nsh == shard:
            do(case)
    # (7) seeded random trees reading per-activation data, several environments each
    nrand = (2400 if quick else 30000) // nsh
    gen = U.RandomVarTrees(ctx.rng, 3 if quick else 4, 2 if quick else 3)
    for _ in range(nrand):
        do(gen.case(3))
    # (8) carrier grid: a harness object evaluated by every name / expression evaluating tag
    npos = len(U.VIA_POSITIONS)
    for i, carrier, form, home, tkind in U.grid_carrier_points():
        if i % nsh != shard:
            continue
        poss = [U.VIA_POSITIONS[(i + i // npos) % npos]] if quick else U.VIA_POSITIONS
        for pos in poss:
            ctx.table('carrier grid: position', pos)
            do(U.build_carrier_case(carrier, form, home, tkind, pos, i))
    if reach is not None:
        try:
            reach.stop()
            reach.report(ctx)
        except Exception:
            ctx.count('reach:unavailable')


def finish(agg):
    c = agg['counters']
    t = agg['tables']
    inc = []
    # Anchor functions are engine internals that a harmless refactoring may rename: their reach
    # counters are a diagnosis.  What decides is below: the outcome / event comparisons and the
    # semantic situations the model went through while the engine agreed with it.  Only when no
    # comparison was made at all does a missing anchor become the reason given.
    diag = []
    for label, _, _ in ANCHORS:
        if c.get('anchor missing:' + label):
            diag.append('anchor function not found (renamed or removed?): ' + label)
        elif not c.get('reach:' + label):
            diag.append('anchor never entered: ' + label)
    if diag and not c.get('monitor:outcome comparisons'):
        inc.extend(diag)
    for k in ('monitor:outcome comparisons', 'monitor:probe events compared',
              'monitor:probes seeing error_type bound',
              'monitor:comparisons on a 2nd..nth render of one compiled template',
              'cases:handler-grid', 'cases:finally-grid', 'cases:placement', 'cases:random',
              'cases:rerender-grid', 'cases:loop-grid', 'cases:random-vars', 'cases:carrier-grid',
              'varied:cases where one computed raise tag object gave different results',
              'varied:cases where one data return tag object gave different results',
              'varied:cases where one data fault tag object gave different results',
              'varied:cases where one try tag object gave different results',
              'varied:computed raise differs between 1st and 2nd activation',
              'varied:try differs between 1st and 2nd activation',
              'template class:restricted', 'template class:mixed', 'template class:string',
              'template class:restricted-string',
              'monitor:outcome comparisons on DT_String.String templates',
              'monitor:outcome comparisons under a security-restricted template class',
              'monitor:probes seeing error_type bound under guards',
              'monitor:handler variables read by a template expression, compared'):
        if not c.get(k):
            inc.append('deciding counter is zero: ' + k)
    sem = t.get('semantics', {})
    semg = t.get('semantics under guards', {})
    for form in U.EFORMS:
        k = 'einfo: handler variables read by form ' + form
        if not sem.get(k):
            inc.append('handler variables never read by the template itself, form ' + form)
        if not semg.get(k):
            inc.append('handler variables never read by a restricted template, form ' + form)
        if not sem.get('einfo: error_type not bound here (form %s)' % form):
            inc.append('template never looked for the handler variables outside a handler, form ' + form)
    for v in ['obj', 'map'] + U.WITH_ONLY:
        if not sem.get('with spelling ' + v):
            inc.append('dtml-with spelling never rendered: ' + v)
    for v in U.WITH_ONLY:
        if not semg.get('with spelling ' + v):
            inc.append('dtml-with spelling never rendered by a restricted template: ' + v)
    if not semg.get('call ended by return'):
        inc.append('no call of a restricted template ended by a return')
    for carrier in U.CARRIERS:
        for form in U.carrier_forms(carrier):
            for what in ('raised', 'gave a value'):
                if not sem.get('via: target %s, carrier %s/%s' % (what, carrier, form)):
                    inc.append('no harness object %s while evaluated by carrier %s, %s form'
                               % (what, carrier, form))
    for home in U.HOMES:
        for what in ('raised', 'gave a value'):
            if not sem.get('via: target %s, found in %s' % (what, home)):
                inc.append('no harness object %s that the namespace found in: %s' % (what, home))
    for k in ('via: condition True', 'via: condition False', 'via: null text inserted',
              'return of a value computed by a harness call',
              'raise by a value the tag asks for its str', 'raise by a value the tag asks for its bool',
              'raise by a value the tag asks for its seq'):
        if not sem.get(k):
            inc.append('semantic situation never exercised: ' + k)
    for pos in U.VIA_POSITIONS:
        if not t.get('carrier grid: position', {}).get(pos):
            inc.append('carrier grid position never built: ' + pos)
    for r in ('var', 'call', 'fresh'):
        if not sem.get('sub-template call route ' + r):
            inc.append('sub-template call route never exercised: ' + r)
    for k in TRY_SEMANTICS + FIN_SEMANTICS:
        if not sem.get(k):
            inc.append('semantic situation never exercised: ' + k)
    for k in ('raise class custom', 'raise class builtin', 'raise class zExceptions',
              'raise class unknown name', 'raise by namespace callable'):
        if not sem.get(k):
            inc.append('raise flavour never exercised: ' + k)
    for k in U.RET_KEYS:
        if not sem.get('return value ' + k):
            inc.append('return value never exercised: ' + k)
    for what in ('return', 'raise'):
        tab = t.get(what + ' executed inside', {})
        for k in BLOCK_KINDS:
            if not tab.get(k):
                inc.append('%s never executed inside block kind %s' % (what, k))
    nlists = len(U.handler_lists())
    return {'inconclusive': inc,
            'coverage': {'exhaustive': True,
                         'anchor_diagnosis': diag,
                         'handler_lists': nlists,
                         'handler_grid_points': sum(1 for _ in U.grid_handler_cases()),
                         'explanation': 'handler grid, try/finally grid and one-deep placement grid are '
                                        'exhaustive in both tiers; the two-deep placement grid is exhaustive '
                                        'in thorough and a 1/16 stride in quick; the rerender and loop grids '
                                        '(one compiled template, many environments / rows) are exhaustive '
                                        'in both tiers; random trees are seeded extras; every 5th case of every '
                                        'part is compiled and compared a second time with another template '
                                        'class (4/6 security-restricted HTML, 1/6 String, 1/6 restricted String)'}}


def replay(ctx, rep):
    from DocumentTemplate.DT_HTML import HTML
    check_case(ctx, HTML, rep['case'])
