"""C11 — batch windows stay in range, tile the sequence and link consistently.

Monitor: a dtml-in body that prints, per displayed element, its number, the element and
every previous-/next-sequence variable; a postcondition wrapper on the real ``opt``.
Oracle: window model written from the DT_In docstring and the property statement;
traversal laws are run by following the links the engine itself printed.
"""
import itertools

from vlib.common import ProbeIter

ID = 'C11'
LEVEL = 'exploration'
RULE = ('exhaustive grid over (length,start,end,size,orphan,overlap) passed through variables '
        '(one compiled template), a literal-attribute sample, previous/next attribute modes, '
        'seeded larger tuples, and link-following traversals; a case is non-trivial when the '
        'sequence is non-empty and at least one batch parameter is effective (>0); distinct = '
        'distinct (mode,length,start,end,size,orphan,overlap,container) tuples')
ASSUMPTIONS = ['start/end <= 0 and size < 1 mean "not given" (DT_In docstring, int_param)',
               'where only `end` is given the statement does not fix `start`: only range, '
               'contiguity, end=min(end,length) and the link equations are demanded']
SHARD_TIMEOUT = {'quick': 600, 'thorough': 3000}

BODY = ('[<dtml-var sequence-number>|<dtml-var sequence-item>|<dtml-var sequence-start>|'
        '<dtml-var sequence-end>|<dtml-var previous-sequence>|<dtml-var next-sequence>|'
        '<dtml-var previous-sequence-start-number missing=->|'
        '<dtml-var previous-sequence-end-number missing=->|'
        '<dtml-var previous-sequence-size missing=->|'
        '<dtml-var next-sequence-start-number missing=->|'
        '<dtml-var next-sequence-end-number missing=->|'
        '<dtml-var next-sequence-size missing=->|'
        '<dtml-var sequence-step-size>|<dtml-var sequence-index>]')
SRC_VARS = ('<dtml-in seq start=st end=en size=sz orphan=orp overlap=ovl>' + BODY +
            '<dtml-else>EMPTY</dtml-in>')

# the `previous` / `next` attribute forms: the body is rendered once iff such a batch exists (else the else
# body) and the previous-/next-sequence variables describe it
MODE_VARS = ('|<dtml-var %(m)s-sequence>|<dtml-var %(m)s-sequence-start-number>|<dtml-var %(m)s-sequence-end-number>|'
             '<dtml-var %(m)s-sequence-size>|<dtml-var %(m)s-sequence-start-index>|<dtml-var %(m)s-sequence-end-index>')
SRC_MODE = {m: ('<dtml-in seq %s start=st end=en size=sz orphan=orp overlap=ovl>B' % m + MODE_VARS % {'m': m} +
                '<dtml-else>NONE</dtml-in>') for m in ('previous', 'next')}

GRID = {
    'quick': dict(length=range(0, 8), start=range(-1, 10), end=range(-1, 10),
                  size=range(-1, 5), orphan=range(0, 3), overlap=range(0, 3)),
    'thorough': dict(length=range(0, 15), start=range(-1, 17), end=range(-1, 17),
                     size=range(-1, 8), orphan=range(0, 5), overlap=range(0, 4)),
}
NSHARDS = {'quick': 16, 'thorough': 48}


def plan(tier, seed):
    return [{} for _ in range(NSHARDS[tier])]


# ---------------------------------------------------------------- model
def model(length, start, end, size, orphan):
    """Expected (first, last, only_end) 1-based window; None where the statement is silent."""
    eff = size if size >= 1 else None
    if start > 0:
        s = min(start, length)
        if end > 0:
            e = min(max(end, s), length)
            return s, e, False
        sz = eff or 7
        e = s + sz - 1
        if e > length or length - e < orphan:
            e = length
        return s, e, False
    if end > 0:
        return None, min(end, length), True
    sz = eff or 7
    e = sz
    if e > length or length - e < orphan:
        e = length
    return 1, e, False


def truthy(tok):
    return tok not in ('0', 'False', '', 'None')


def parse(out):
    recs = []
    if not (out.startswith('[') and out.endswith(']')):
        raise ValueError('unparseable output %r' % out[:80])
    for r in out[1:-1].split(']['):
        f = r.split('|')
        if len(f) != 14:
            raise ValueError('bad record %r' % r)
        recs.append(f)
    return recs


def num(tok):
    return None if tok == '-' else int(tok)


# ---------------------------------------------------------------- monitor on opt
class OptMonitor:
    def __init__(self, ctx):
        self.ctx = ctx
        self.bad = []
        self.mode_templates = None

    def install(self):
        from DocumentTemplate import DT_In
        from DocumentTemplate import DT_InSV
        real = DT_InSV.opt
        self.real = real
        ctx = self.ctx
        bad = self.bad

        def opt(start, end, size, orphan, sequence):
            r = real(start, end, size, orphan, sequence)
            ctx.count('opt:postcondition_evaluations')
            if start > 0:
                ctx.count('opt:branch start&end' if end > 0 else 'opt:branch start only')
            elif end > 0:
                ctx.count('opt:branch end only')
            else:
                ctx.count('opt:branch neither')
            try:
                n = len(sequence)
            except Exception:
                n = None
            s, e, sz = r
            # With both bounds explicit the repository's own pinned test (test_opt) fixes that opt
            # returns the end unclamped; the caller clamps.  The upper bound is demanded elsewhere.
            upper_ok = e <= n if not (start > 0 and end > 0) else True
            if n and not (1 <= s <= e and upper_ok and sz >= 1):
                bad.append(((start, end, size, orphan, n), r))
            return r
        opt.__wrapped__ = real
        DT_InSV.opt = opt
        DT_In.opt = opt
        try:
            import icontract

            class OptPost(Exception):
                pass

            def in_range(start, end, size, orphan, sequence, result):
                ctx.count('opt:icontract_evaluations')
                try:
                    n = len(sequence)
                except Exception:
                    return True
                return (not n) or 1 <= result[0] <= result[1] <= n

            # icontract evaluates on normal exits only; the hand-written wrapper above decides.
            self.icontract = icontract.ensure(in_range, error=OptPost)
        except Exception:
            self.icontract = None


# ---------------------------------------------------------------- one render
def check_window(ctx, mon, tmpl, mode, length, st, en, sz, orp, ovl, container, literal_src=None):
    case = {'mode': mode, 'length': length, 'start': st, 'end': en, 'size': sz,
            'orphan': orp, 'overlap': ovl, 'container': container}
    if literal_src:
        case['src'] = literal_src
    nontriv = length > 0 and (st > 0 or en > 0 or sz > 0)
    ctx.case((mode, length, st, en, sz, orp, ovl, container), nontriv)
    if container == 'list':
        seq = list(range(1, length + 1))
    elif container == 'tuple':
        seq = tuple(range(1, length + 1))
    else:
        seq = ProbeIter(length, budget=length + 200)
    del mon.bad[:]
    try:
        if literal_src:
            out = tmpl(seq=seq)
        else:
            out = tmpl(seq=seq, st=st, en=en, sz=sz, orp=orp, ovl=ovl)
    except Exception as e:
        mech = None
        ctx.violation('batched render raised %s: %s' % (type(e).__name__, str(e)[:120]),
                      case, mech=mech,
                      key='raise_%s_%d_%d_%d_%d_%d_%d' % (type(e).__name__, length, st, en, sz, orp, ovl))
        return None
    if mon.bad:
        ctx.violation('opt postcondition 1<=start<=end<=length broken: %r' % (mon.bad[:2],),
                      case, key='optpost_%d_%d_%d_%d_%d_%d' % (length, st, en, sz, orp, ovl))
    if length == 0:
        ctx.count('window:empty sequence')
        if out != 'EMPTY':
            ctx.violation('empty sequence did not render the else body: %r' % out[:80], case)
        return None
    try:
        recs = parse(out)
    except ValueError as e:
        ctx.violation(str(e), case)
        return None
    nums = [int(r[0]) for r in recs]
    items = [int(r[1]) for r in recs]
    s, e = nums[0], nums[-1]
    problems = []
    if nums != list(range(s, e + 1)):
        problems.append('non-contiguous run %r' % nums)
    if items != nums:
        problems.append('elements %r shown for numbers %r' % (items, nums))
    if not (1 <= s <= e <= length):
        problems.append('window %d..%d outside 1..%d' % (s, e, length))
    ms, me, only_end = model(length, st, en, sz, orp)
    if me != e:
        problems.append('window end %d, expected %d' % (e, me))
    if ms is not None and ms != s:
        problems.append('window start %d, expected %d' % (s, ms))
    if only_end:
        ctx.count('window:only end given (start unconstrained)')
    last = len(recs) - 1
    for i, r in enumerate(recs):
        if truthy(r[2]) != (i == 0):
            problems.append('sequence-start=%s on position %d' % (r[2], i))
        if truthy(r[3]) != (i == last):
            problems.append('sequence-end=%s on position %d' % (r[3], i))
        want_prev = (i == 0 and s > 1)
        want_next = (i == last and e < length)
        if truthy(r[4]) != want_prev:
            problems.append('previous-sequence=%s on position %d of window %d..%d' % (r[4], i, s, e))
        if truthy(r[5]) != want_next:
            problems.append('next-sequence=%s on position %d of window %d..%d/%d' % (r[5], i, s, e, length))
        if int(r[13]) != int(r[0]) - 1:
            problems.append('sequence-index %s vs number %s' % (r[13], r[0]))
    first_r, last_r = recs[0], recs[-1]
    nxt = prv = None
    if e < length:
        ns, ne, nsz = num(last_r[9]), num(last_r[10]), num(last_r[11])
        if ns is None or ne is None:
            problems.append('next batch not announced although elements remain')
        else:
            nxt = ns
            if not (1 <= ns <= ne <= length):
                problems.append('announced next batch %s..%s outside 1..%d' % (ns, ne, length))
            if nsz != ne + 1 - ns:
                problems.append('next-sequence-size %s != %s+1-%s' % (nsz, ne, ns))
            if e + 1 - ovl >= 1:
                ctx.count('links:next equation demanded')
                if ns != e + 1 - ovl:
                    problems.append('next batch starts at %s, expected end+1-overlap=%d' % (ns, e + 1 - ovl))
    if s > 1:
        ps, pe, psz = num(first_r[6]), num(first_r[7]), num(first_r[8])
        if ps is None or pe is None:
            problems.append('previous batch not announced although elements precede')
        else:
            prv = ps
            if not (1 <= ps <= pe <= length):
                problems.append('announced previous batch %s..%s outside 1..%d' % (ps, pe, length))
            if psz != pe + 1 - ps:
                problems.append('previous-sequence-size %s != %s+1-%s' % (psz, pe, ps))
            if s - 1 + ovl <= length:
                ctx.count('links:previous equation demanded')
                if pe != s - 1 + ovl:
                    problems.append('previous batch ends at %s, expected start-1+overlap=%d' % (pe, s - 1 + ovl))
    if problems:
        ctx.violation('; '.join(problems[:4]), case,
                      key='win_%s_%d_%d_%d_%d_%d_%d' % (mode, length, st, en, sz, orp, ovl),
                      detail={'output': out[:600]})
    ctx.count('window:rendered')
    step = int(recs[0][12])
    if not problems and mode in ('vars', 'rand') and mon.mode_templates:
        check_modes(ctx, mon, case, length, s, e,
                    (num(first_r[6]), num(first_r[7]), num(first_r[8])) if s > 1 else None,
                    (num(last_r[9]), num(last_r[10]), num(last_r[11])) if e < length else None)
    return s, e, nxt, prv, step


def check_modes(ctx, mon, case, length, s, e, prev_ann, next_ann):
    """<dtml-in seq previous ...> / <dtml-in seq next ...> with the same parameters: the body once iff the
    window (as the plain rendering showed it, already judged against the model) has a neighbour on that side,
    announcing the same neighbour as the plain rendering did, with size = end+1-start and index = number-1."""
    for m, ann in (('previous', prev_ann), ('next', next_ann)):
        seq = list(range(1, length + 1)) if case['container'] != 'tuple' else tuple(range(1, length + 1))
        c2 = dict(case, mode=m)
        try:
            out = mon.mode_templates[m](seq=seq, st=case['start'], en=case['end'], sz=case['size'],
                                        orp=case['orphan'], ovl=case['overlap'])
        except Exception as ex:
            ctx.violation('%s-attribute render raised %s: %s' % (m, type(ex).__name__, str(ex)[:120]), c2,
                          key='mode_raise_%s_%d_%d_%d_%d_%d_%d' % (m, length, case['start'], case['end'],
                                                                case['size'], case['orphan'], case['overlap']))
            continue
        ctx.count('modes:%s attribute renders' % m)
        if ann is None:
            want = 'NONE'
        else:
            a, b, n = ann
            want = 'B|1|%d|%d|%d|%d|%d' % (a, b, b + 1 - a, a - 1, b - 1)
            ctx.count('modes:%s batch announced' % m)
        if out != want and not (ann is not None and out.startswith('B|') and
                                [truthy(out.split('|')[1])] + out.split('|')[2:] == [True] + want.split('|')[2:]):
            ctx.violation('<dtml-in seq %s ...> rendered %r, the plain rendering of the same window %d..%d of %d '
                          'announces %r' % (m, out[:80], s, e, length, want), c2,
                          key='mode_%s_%d_%d_%d_%d_%d_%d' % (m, length, case['start'], case['end'], case['size'],
                                                          case['orphan'], case['overlap']))


# ---------------------------------------------------------------- traversal
def traverse(ctx, mon, tmpl, length, sz, orp, ovl, container):
    """Follow next links from 1, then previous links back; bounded walks."""
    case = {'mode': 'traverse', 'length': length, 'size': sz, 'orphan': orp, 'overlap': ovl,
            'container': container}
    ctx.count('traversals')
    windows = []
    st = 1
    hops = 0
    while True:
        hops += 1
        if hops > length + 2:
            ctx.violation('next-link walk did not terminate within length+2 hops', case,
                          key='trav_loop_%d_%d_%d_%d' % (length, sz, orp, ovl))
            return
        r = check_window(ctx, mon, tmpl, 'trav', length, st, 0, sz, orp, ovl, container)
        if r is None:
            return
        s, e, nxt, prv, step = r
        if s != st:
            ctx.violation('asked for start %d, window starts at %d' % (st, s), case)
            return
        windows.append((s, e, prv))
        if nxt is None:
            break
        st = nxt
    probs = []
    if windows[0][0] != 1:
        probs.append('walk does not begin at 1')
    if windows[-1][1] != length:
        probs.append('walk ends at %d, length %d' % (windows[-1][1], length))
    for (s1, e1, _), (s2, e2, _) in zip(windows, windows[1:]):
        shared = e1 - s2 + 1
        if shared != ovl:
            probs.append('neighbours %d..%d and %d..%d share %d, overlap=%d' % (s1, e1, s2, e2, shared, ovl))
        if not s2 > s1:
            probs.append('walk not advancing')
    covered = set()
    for s, e, _ in windows:
        covered.update(range(s, e + 1))
    if covered != set(range(1, length + 1)):
        probs.append('walk does not cover 1..length')
    # backward
    st = windows[-1][0]
    prv = windows[-1][2]
    hops = 0
    while st > 1:
        hops += 1
        if hops > length + 2:
            probs.append('previous-link walk did not reach 1 within length+2 hops')
            break
        if prv is None:
            probs.append('no previous link on window starting at %d' % st)
            break
        if not prv < st:
            probs.append('previous link %d does not move back from %d' % (prv, st))
            break
        r = check_window(ctx, mon, tmpl, 'trav', length, prv, 0, sz, orp, ovl, container)
        if r is None:
            return
        st, prv = r[0], r[3]
    ctx.count('traversal_windows', len(windows))
    if probs:
        ctx.violation('; '.join(probs[:4]), case,
                      key='trav_%d_%d_%d_%d' % (length, sz, orp, ovl),
                      detail={'windows': windows})


def literal_source(st, en, sz, orp, ovl):
    parts = ['<dtml-in seq']
    for n, v in (('start', st), ('end', en), ('size', sz)):
        if v is not None:
            parts.append('%s=%d' % (n, v))
    if orp is not None:
        parts.append('orphan=%d' % orp)
    if ovl is not None:
        parts.append('overlap=%d' % ovl)
    return ' '.join(parts) + '>' + BODY + '<dtml-else>EMPTY</dtml-in>'


def run(ctx, spec):
    from DocumentTemplate.DT_HTML import HTML
    from DocumentTemplate import DT_In, DT_InSV
    from vlib.reach import Reach
    reach = Reach()
    reach.watch('DT_InSV.opt', DT_InSV.opt)
    reach.watch('InClass.renderwb', DT_In.InClass.renderwb)
    reach.watch('sequence_variables.__getitem__', DT_InSV.sequence_variables.__getitem__)
    reach.start()
    mon = OptMonitor(ctx)
    mon.install()
    tmpl = HTML(SRC_VARS)
    tmpl.cook()
    mon.mode_templates = {m: HTML(src) for m, src in SRC_MODE.items()}
    g = GRID[ctx.tier]
    space = itertools.product(g['length'], g['start'], g['end'], g['size'], g['orphan'], g['overlap'])
    lit_cache = {}
    for i, (n, st, en, sz, orp, ovl) in enumerate(space):
        if i % ctx.nshards != ctx.shard:
            continue
        container = 'iter' if i % 8 == 3 else ('tuple' if i % 8 == 5 else 'list')
        check_window(ctx, mon, tmpl, 'vars', n, st, en, sz, orp, ovl, container)
        if i % 16 == 7 and (st > 0 or en > 0 or sz > 0):
            # literal attributes; values <= 0 are written as absent attributes
            lit = (st if st > 0 else None, en if en > 0 else None, sz if sz > 0 else None,
                   orp, ovl)
            src = literal_source(*lit)
            t = lit_cache.get(src)
            if t is None:
                if len(lit_cache) > 2000:
                    lit_cache.clear()
                t = lit_cache[src] = HTML(src)
            ctx.count('literal-attribute renders')
            check_window(ctx, mon, t, 'literal', n, st, en, sz, orp, ovl, 'list', literal_src=src)
    # traversals: every (length,size,orphan,overlap) with overlap < effective size
    tspace = itertools.product(g['length'], g['size'], g['orphan'], g['overlap'])
    for i, (n, sz, orp, ovl) in enumerate(tspace):
        if i % ctx.nshards != ctx.shard or n == 0:
            continue
        eff = sz if sz >= 1 else 7
        if ovl < eff:
            traverse(ctx, mon, tmpl, n, sz, orp, ovl, 'iter' if i % 5 == 0 else 'list')
    # seeded larger tuples
    nrand = (6000 if ctx.tier == 'quick' else 100000) // ctx.nshards
    rng = ctx.rng
    for _ in range(nrand):
        n = rng.randint(0, 200)
        st = rng.choice([0, -3, rng.randint(1, 220), rng.randint(1, 220)])
        en = rng.choice([0, 0, -1, rng.randint(1, 220)])
        sz = rng.choice([0, -2, rng.randint(1, 40), rng.randint(1, 40)])
        orp = rng.randint(0, 12)
        ovl = rng.randint(0, 8)
        ctx.count('seeded larger tuples')
        check_window(ctx, mon, tmpl, 'rand', n, st, en, sz, orp, ovl, rng.choice(['list', 'iter']))
        if n and rng.random() < 0.05:
            eff = sz if sz >= 1 else 7
            if ovl < eff:
                traverse(ctx, mon, tmpl, n, sz, orp, ovl, 'list')
    if ctx.shard == 0:
        ctx.sample({'template': SRC_VARS[:120] + '...', 'namespace': dict(seq='[1..5]', st=2, en=0, sz=2, orp=1, ovl=1),
                    'output': tmpl(seq=[1, 2, 3, 4, 5], st=2, en=0, sz=2, orp=1, ovl=1)})
    reach.stop()
    reach.report(ctx)


def finish(agg):
    c = agg['counters']
    inc = []
    if not c.get('opt:postcondition_evaluations'):
        inc.append('opt postcondition wrapper never evaluated')
    for b in ('opt:branch start&end', 'opt:branch start only', 'opt:branch end only', 'opt:branch neither'):
        if not c.get(b):
            inc.append('opt branch never taken: ' + b)
    for r in ('reach:DT_InSV.opt', 'reach:InClass.renderwb'):
        if not c.get(r):
            inc.append('anchor never entered: ' + r)
    for m in ('previous', 'next'):
        if not c.get('modes:%s batch announced' % m):
            inc.append('the %s attribute form never announced a batch' % m)
    if not c.get('traversals'):
        inc.append('no link traversal ran')
    g = GRID[agg['tier']]
    size = 1
    for v in g.values():
        size *= len(v)
    return {'inconclusive': inc,
            'coverage': {'exhaustive': True, 'grid': {k: [v[0], v[-1]] for k, v in g.items()},
                         'grid_points': size,
                         'explanation': 'exhaustive over the stated grid; the seeded larger tuples are extra'}}


def replay(ctx, rep):
    from DocumentTemplate.DT_HTML import HTML
    mon = OptMonitor(ctx)
    mon.install()
    c = rep['case']
    mon.mode_templates = {m: HTML(src) for m, src in SRC_MODE.items()}
    if c.get('mode') in ('previous', 'next'):
        c = dict(c, mode='vars')        # the plain rendering is re-run first; it calls the attribute forms
    if c.get('mode') == 'traverse':
        traverse(ctx, mon, HTML(SRC_VARS), c['length'], c['size'], c['orphan'], c['overlap'], c['container'])
        return
    tmpl = HTML(c['src']) if c.get('src') else HTML(SRC_VARS)
    check_window(ctx, mon, tmpl, c['mode'], c['length'], c['start'], c['end'], c['size'],
                 c['orphan'], c['overlap'], c['container'], literal_src=c.get('src'))
