"""C11 — batch windows stay in range, tile the sequence and link consistently.

Monitor: a dtml-in body that prints, per displayed element, its number, the element and
every previous-/next-sequence variable; a postcondition wrapper on the real ``opt`` (diagnosis).
Oracle: window model written from the DT_In docstring and the property statement;
traversal laws are run by following the links the engine itself printed.
Configurations (vlib/c11_util.py): the same window is also requested and read through variant
templates -- prefix spelling, sparse / documented-idiom / nested bodies, expr forms, item kinds,
literal / variable / absent attributes -- with int, text or callable parameter values, each compiled
template re-rendered with changing values; all are reduced to the same 14-field records and judged by
the same model.  Two further dimensions are drawn per render / per configuration: what the elements are (numbers,
a permutation, None, other false values, numbers with None holes -- the answer to "do elements remain" must not
depend on the value of the next element) and the order options (reverse, reverse_expr, sort, sort_expr and their
combinations -- the window is then a window over the shown order, the items are compared with that order).  Every recorded case carries the last calls of its compiled template (replay repeats
them), and a violating window is re-rendered on a fresh compile to tell history-dependent faults apart.
"""
import itertools

from vlib import c11_util as U

ID = 'C11'
LEVEL = 'exploration'
RULE = ('exhaustive grid over (length,start,end,size,orphan,overlap) passed through variables '
        '(one compiled template), a literal-attribute sample, previous/next attribute modes, '
        'seeded larger tuples, and link-following traversals; a case is non-trivial when the '
        'sequence is non-empty and at least one batch parameter is effective (>0); distinct = '
        'distinct (mode,length,start,end,size,orphan,overlap,container[,configuration,value forms][,element content,'
        'reverse_expr value]) tuples. '
        'Every grid point and every larger tuple is rendered a second time through one of 20 long-lived '
        'variant templates (vlib/c11_util.designed_cfgs: a twin of the main source, prefix= with the 14 '
        'variables read through the prefix spelling wholly / flags only / all but flags / alternating / not at '
        'all, link variables read only inside <dtml-if next-sequence> or only inside <dtml-if sequence-end> '
        '(documented idiom, entity syntax), a second batched dtml-in nested in the body (also one whose body '
        'raises into a dtml-try of the outer body), expr forms of the '
        'sequence, mapping / (key,value) / object / text items, no_push_item, absent attributes), chosen by '
        'ctx.rng, with the value FORM of each variable-named parameter drawn per render (int, text as a query '
        'string delivers it, callable returning either): the same compiled template is therefore re-rendered '
        'with changing text values.  A 1/16 sample of grid points is rendered through a random configuration '
        '(each parameter literal / variable / absent, quoted or not, attribute order, sequence form, prefix and '
        'spelling mask, body layout, item kind).  Half of the link traversals run on a variant template and '
        'feed the printed next-sequence-start-number back as text.  The previous/next attribute forms are '
        'rendered with dashed or prefix-spelled variables and int or text values.  All of them are reduced to '
        'the same 14-field record per displayed element and judged by the one window model.  '
        'What the elements ARE is drawn per render of every variant / random configuration, of a 1/8 sample of grid '
        'points on the main template, of 30% of the larger tuples and of half of the traversals (content: element k '
        'is k | a permutation of 1..n | every element None | None, 0, "", (), 0.0, False in turn | numbers with '
        'None holes; bare, as text, as the value of (key,value) pairs, mappings and objects): the window, the '
        'flags and the links must not depend on it and the item shown for number k must be the k-th element.  The '
        'options that change the shown ORDER are a dimension of the configurations (10 long-lived variants and the '
        'random ones: reverse, reverse_expr="1"/"0", reverse_expr=variable switched between renders of one '
        'compiled template, sort=sequence-item / sort=v, sort+reverse, sort_expr, sort_expr+reverse_expr, '
        'sort="v/cmp/desc"): the window laws are then judged over the shown order, with windows that reach or '
        'overshoot the end, and link traversals walk reversed / sorted sequences.  The previous / next attribute '
        'forms are rendered under the same order options and element contents (a function of the parameters).  '
        'Object elements are as false as their value, and besides list / tuple / counting iterator the sequence is '
        'also an instance of a class of the caller (subscription and length only).')
ASSUMPTIONS = ['start/end <= 0 and size < 1 mean "not given" (DT_In docstring, int_param)',
               'where only `end` is given the statement does not fix `start`: only range, '
               'contiguity, end=min(end,length) and the link equations are demanded',
               'the value of a variable-named parameter is an int, the decimal text of one (DT_In docstring: '
               'batch_start arrives in the query string) or a callable returning either (namespace lookups '
               'call callables); no other value types are demanded',
               'prefix=p offers sequence-x as p_x and every other variable y-z as p_y_z (pinned test '
               'test__setitem__getitem__, property C10); both spellings must show the same window and links',
               'the statement speaks of elements, of how many remain / precede and of their numbers, never of '
               'their values: None, 0, "", (), 0.0 and False are elements like any other (a 2-tuple is a '
               '(key,value) pair by the DT_In docstring, so bare tuples other than () are not used)',
               'reverse / reverse_expr / sort / sort_expr only change the order the sequence is shown in (DT_In '
               'docstring, C13): with them the window laws hold over the shown order; sorting is only combined with '
               'distinct int / text keys (ordering itself is C13), element k of the shown order is then the k-th '
               'smallest (text order for text elements), reversed when a reverse option holds; a reverse_expr whose '
               'value is false does not reverse',
               'the opt postcondition wrapper and the sys.monitoring anchors are diagnosis only: '
               'inconclusive is decided from the output-level comparisons']
SHARD_TIMEOUT = {'quick': 600, 'thorough': 3000}

BODY = ('[<dtml-var sequence-number>|<dtml-var sequence-item>|<dtml-var sequence-start>|'
        '<dtml-var sequence-end>|<dtml-var previous-sequence>|<dtml-var next-sequence>|'
        '<dtml-var previous-sequence-start-number missing=->|'
        '<dtml-var previous-sequence-end-number missing=->|'
        '<dtml-var previous-sequence-size missing=->|'
        '<dtml-var next-sequence-start-number missing=->|'
        '<dtml-var next-sequence-end-number missing=->|'
        '<dtml-var next-sequence-size missing=->|'
        '<dtml-var sequence-step-size>|<dtml-var sequence-index>]')
SRC_VARS = ('<dtml-in seq start=st end=en size=sz orphan=orp overlap=ovl>' + BODY +
            '<dtml-else>EMPTY</dtml-in>')

# the `previous` / `next` attribute forms: the body is rendered once iff such a batch exists (else the else
# body) and the previous-/next-sequence variables describe it
MODE_VARS = ('|<dtml-var %(m)s-sequence>|<dtml-var %(m)s-sequence-start-number>|<dtml-var %(m)s-sequence-end-number>|'
             '<dtml-var %(m)s-sequence-size>|<dtml-var %(m)s-sequence-start-index>|<dtml-var %(m)s-sequence-end-index>')
SRC_MODE = {m: ('<dtml-in seq %s start=st end=en size=sz orphan=orp overlap=ovl>B' % m + MODE_VARS % {'m': m} +
                '<dtml-else>NONE</dtml-in>') for m in ('previous', 'next')}

GRID = {
    'quick': dict(length=range(0, 8), start=range(-1, 10), end=range(-1, 10),
                  size=range(-1, 5), orphan=range(0, 3), overlap=range(0, 3)),
    'thorough': dict(length=range(0, 15), start=range(-1, 17), end=range(-1, 17),
                     size=range(-1, 8), orphan=range(0, 5), overlap=range(0, 4)),
}
NSHARDS = {'quick': 16, 'thorough': 48}


def plan(tier, seed):
    return [{} for _ in range(NSHARDS[tier])]


# ---------------------------------------------------------------- model
def model(length, start, end, size, orphan):
    """Expected (first, last, only_end) 1-based window; None where the statement is silent."""
    eff = size if size >= 1 else None
    if start > 0:
        s = min(start, length)
        if end > 0:
            e = min(max(end, s), length)
            return s, e, False
        sz = eff or 7
        e = s + sz - 1
        if e > length or length - e < orphan:
            e = length
        return s, e, False
    if end > 0:
        return None, min(end, length), True
    sz = eff or 7
    e = sz
    if e > length or length - e < orphan:
        e = length
    return 1, e, False


def truthy(tok):
    return tok not in ('0', 'False', '', 'None')


def parse(out):
    recs = []
    if not (out.startswith('[') and out.endswith(']')):
        raise ValueError('unparseable output %r' % out[:80])
    for r in out[1:-1].split(']['):
        f = r.split('|')
        if len(f) != 14:
            raise ValueError('bad record %r' % r)
        recs.append(f)
    return recs


class BadField(ValueError):
    """A batch variable that must render as a number (or be absent) rendered as something else."""


def num(tok):
    if tok == '-':
        return None
    try:
        return int(tok)
    except ValueError:
        raise BadField(tok)


# ---------------------------------------------------------------- monitor on opt
class OptMonitor:
    def __init__(self, ctx):
        self.ctx = ctx
        self.bad = []
        self.mode_templates = None

    def install(self):
        from DocumentTemplate import DT_In
        from DocumentTemplate import DT_InSV
        self.icontract = None
        real = getattr(DT_InSV, 'opt', None)
        if real is None or getattr(DT_In, 'opt', None) is not real:
            # the helper was renamed / rebound: the output-level oracle still decides
            self.ctx.count('opt:wrapper not installed (diagnosis only)')
            return
        self.real = real
        ctx = self.ctx
        bad = self.bad

        def opt(start, end, size, orphan, sequence):
            r = real(start, end, size, orphan, sequence)
            ctx.count('opt:postcondition_evaluations')
            if start > 0:
                ctx.count('opt:branch start&end' if end > 0 else 'opt:branch start only')
            elif end > 0:
                ctx.count('opt:branch end only')
            else:
                ctx.count('opt:branch neither')
            try:
                n = len(sequence)
            except Exception:
                n = None
            s, e, sz = r
            # With both bounds explicit the repository's own pinned test (test_opt) fixes that opt
            # returns the end unclamped; the caller clamps.  The upper bound is demanded elsewhere.
            upper_ok = e <= n if not (start > 0 and end > 0) else True
            if n and not (1 <= s <= e and upper_ok and sz >= 1):
                bad.append(((start, end, size, orphan, n), r))
            return r
        opt.__wrapped__ = real
        DT_InSV.opt = opt
        DT_In.opt = opt
        try:
            import icontract

            class OptPost(Exception):
                pass

            def in_range(start, end, size, orphan, sequence, result):
                ctx.count('opt:icontract_evaluations')
                try:
                    n = len(sequence)
                except Exception:
                    return True
                return (not n) or 1 <= result[0] <= result[1] <= n

            # icontract evaluates on normal exits only; the hand-written wrapper above decides.
            self.icontract = icontract.ensure(in_range, error=OptPost)
        except Exception:
            self.icontract = None


# ---------------------------------------------------------------- one render
def render(T, seq, vals, forms, rv=None):
    if T.literal:
        return T.tmpl(seq=seq)
    if T.cfg is None:
        st, en, sz, orp, ovl = vals
        return T.tmpl(seq=seq, st=st, en=en, sz=sz, orp=orp, ovl=ovl)
    return T.tmpl(seq=seq, inner=list(U.INNER), **U.namespace(vals, forms, T.cfg, rv))


def call_record(length, vals, container, forms, content='num', rv=None):
    r = {'length': length, 'vals': list(vals), 'container': container, 'forms': forms}
    if content != 'num':
        r['content'] = content
    if rv is not None:
        r['rv'] = rv
    return r


def check_window(ctx, mon, T, mode, length, st, en, sz, orp, ovl, container, forms='iiiii', content='num',
                 rv=None):
    try:
        return _check_window(ctx, mon, T, mode, length, st, en, sz, orp, ovl, container, forms, content, rv)
    except BadField as e:
        # e.g. an entity reference left in the output as literal text: the record cannot be read, which is a
        # report about the rendering, never a harness error
        case = {'mode': mode, 'length': length, 'start': st, 'end': en, 'size': sz, 'orphan': orp,
                'overlap': ovl, 'container': container, 'src': T.src}
        ctx.violation('a batch variable rendered as %r where a number (or nothing) is documented' % str(e)[:80], case)
        return None


def _check_window(ctx, mon, T, mode, length, st, en, sz, orp, ovl, container, forms='iiiii', content='num',
                  rv=None):
    cfg = T.cfg
    vals = (st, en, sz, orp, ovl)
    case = {'mode': mode, 'length': length, 'start': st, 'end': en, 'size': sz,
            'orphan': orp, 'overlap': ovl, 'container': container}
    if content != 'num':
        case['content'] = content
    if rv is not None:
        case['rv'] = rv
    if T.literal:
        case['src'] = T.src
    if cfg is not None:
        case.update(cfg=cfg, forms=forms, variant=T.name, src=T.src)
    if T.hist:
        # earlier calls of the same compiled template (replay repeats them first)
        case['history'] = list(T.hist)
    nontriv = length > 0 and (st > 0 or en > 0 or sz > 0)
    extra = () if content == 'num' and rv is None else (content, repr(rv))
    if cfg is None:
        ctx.case((mode, length, st, en, sz, orp, ovl, container) + extra, nontriv)
    else:
        ctx.case((mode, length, st, en, sz, orp, ovl, container, U.cfg_key(cfg), forms) + extra, nontriv)
    kind = cfg['items'] if cfg else 'int'
    seqorder = cfg.get('seqorder') if cfg else None
    seq = U.make_seq(length, container, kind, content)
    del mon.bad[:]
    T.hist.append(call_record(length, vals, container, forms, content, rv))
    T.renders += 1
    if cfg is not None:
        note_variant(ctx, T, vals, forms)
    try:
        out = render(T, seq, vals, forms, rv)
    except Exception as e:
        mech = None
        ctx.violation('batched render raised %s: %s' % (type(e).__name__, str(e)[:120]),
                      case, mech=mech,
                      key='raise_%s_%d_%d_%d_%d_%d_%d' % (type(e).__name__, length, st, en, sz, orp, ovl))
        return None
    if mon.bad:
        ctx.violation('opt postcondition 1<=start<=end<=length broken: %r' % (mon.bad[:2],),
                      case, key='optpost_%d_%d_%d_%d_%d_%d' % (length, st, en, sz, orp, ovl))
    if length == 0:
        ctx.count('window:empty sequence')
        if out != 'EMPTY':
            ctx.violation('empty sequence did not render the else body: %r' % out[:80], case)
        return None
    problems = []
    raw = out
    try:
        if cfg is not None and cfg['layout'] in U.NESTED:
            out, inner = U.split_nested(out)
            want_inner = U.INNER_OUT[cfg['layout']]
            if [x for x in inner if x != want_inner]:
                problems.append('the nested batch over 5 elements (start=2 size=2) rendered %r, expected %r'
                                % ([x for x in inner if x != want_inner][0][:40], want_inner))
        recs = parse(out)
        if cfg is not None and cfg['layout'] in U.NESTED and len(inner) != len(recs):
            problems.append('%d nested-loop outputs for %d displayed elements' % (len(inner), len(recs)))
    except ValueError as e:
        ctx.violation(str(e), case, detail={'output': raw[:600]})
        return None
    try:
        nums = [int(r[0]) for r in recs]
    except ValueError:
        ctx.violation('sequence-number is not a number in %r' % raw[:80], case, detail={'output': raw[:600]})
        return None
    items = [r[1] for r in recs]
    s, e = nums[0], nums[-1]
    if nums != list(range(s, e + 1)):
        problems.append('non-contiguous run %r' % nums)
    # the element shown for number k is the k-th element of the shown order (the input order unless the
    # configuration sorts / reverses), whatever the elements are
    shown = U.expected_items(length, kind, content, seqorder, rv)
    if all(1 <= k <= length for k in nums):
        want_items = [shown[k - 1] for k in nums]
        if items != want_items:
            problems.append('elements %r shown for numbers %r, expected %r' % (items[:8], nums[:8], want_items[:8]))
    if not (1 <= s <= e <= length):
        problems.append('window %d..%d outside 1..%d' % (s, e, length))
    ms, me, only_end = model(length, st, en, sz, orp)
    if me != e:
        problems.append('window end %d, expected %d' % (e, me))
    if ms is not None and ms != s:
        problems.append('window start %d, expected %d' % (s, ms))
    if only_end:
        ctx.count('window:only end given (start unconstrained)')
    # which way the window was requested (output-level twin of the opt branch counters)
    ctx.count('window:asked with ' + ('start&end' if st > 0 and en > 0 else 'start only' if st > 0
                                       else 'end only' if en > 0 else 'neither'))
    last = len(recs) - 1
    for i, r in enumerate(recs):
        if truthy(r[2]) != (i == 0):
            problems.append('sequence-start=%s on position %d' % (r[2], i))
        if truthy(r[3]) != (i == last):
            problems.append('sequence-end=%s on position %d' % (r[3], i))
        want_prev = (i == 0 and s > 1)
        want_next = (i == last and e < length)
        if truthy(r[4]) != want_prev:
            problems.append('previous-sequence=%s on position %d of window %d..%d' % (r[4], i, s, e))
        if truthy(r[5]) != want_next:
            problems.append('next-sequence=%s on position %d of window %d..%d/%d' % (r[5], i, s, e, length))
        if int(r[13]) != int(r[0]) - 1:
            problems.append('sequence-index %s vs number %s' % (r[13], r[0]))
    first_r, last_r = recs[0], recs[-1]
    nxt = prv = None
    if e < length:
        ns, ne, nsz = num(last_r[9]), num(last_r[10]), num(last_r[11])
        if ns is None or ne is None:
            problems.append('next batch not announced although elements remain')
        else:
            nxt = ns
            if not (1 <= ns <= ne <= length):
                problems.append('announced next batch %s..%s outside 1..%d' % (ns, ne, length))
            if nsz != ne + 1 - ns:
                problems.append('next-sequence-size %s != %s+1-%s' % (nsz, ne, ns))
            if e + 1 - ovl >= 1:
                ctx.count('links:next equation demanded')
                if ns != e + 1 - ovl:
                    problems.append('next batch starts at %s, expected end+1-overlap=%d' % (ns, e + 1 - ovl))
    if s > 1:
        ps, pe, psz = num(first_r[6]), num(first_r[7]), num(first_r[8])
        if ps is None or pe is None:
            problems.append('previous batch not announced although elements precede')
        else:
            prv = ps
            if not (1 <= ps <= pe <= length):
                problems.append('announced previous batch %s..%s outside 1..%d' % (ps, pe, length))
            if psz != pe + 1 - ps:
                problems.append('previous-sequence-size %s != %s+1-%s' % (psz, pe, ps))
            if s - 1 + ovl <= length:
                ctx.count('links:previous equation demanded')
                if pe != s - 1 + ovl:
                    problems.append('previous batch ends at %s, expected start-1+overlap=%d' % (pe, s - 1 + ovl))
    if cfg is not None:
        note_judged(ctx, T, cfg, s, e, length)
    note_content(ctx, T, kind, content, seqorder, rv, s, e, length)
    if problems:
        detail = {'output': raw[:600]}
        what = '; '.join(problems[:4])
        if cfg is not None:
            what = '[%s %s forms=%s] ' % (T.name, U.cfg_key(cfg), forms) + what
        if T.renders > 1:
            # diagnosis: does a fresh compile of the same source show the same thing for the same values?
            try:
                from DocumentTemplate.DT_HTML import HTML
                fresh = render(U.T(HTML, T.src, cfg=cfg, literal=T.literal),
                               U.make_seq(length, container, kind, content), vals, forms, rv)
            except Exception as ex:
                fresh = 'raised %s' % type(ex).__name__
            if fresh != raw:
                what += ' -- depends on the earlier renders of this compiled template (see history): a fresh ' \
                        'compile of the same source renders %r' % fresh[:120]
                detail['fresh_compile_output'] = fresh[:600]
        ctx.violation(what, case,
                      key='win_%s_%d_%d_%d_%d_%d_%d' % (mode, length, st, en, sz, orp, ovl),
                      detail=detail)
    ctx.count('window:rendered')
    step = int(recs[0][12])
    if not problems and mode in ('vars', 'rand') and mon.mode_templates:
        check_modes(ctx, mon, case, length, s, e,
                    (num(first_r[6]), num(first_r[7]), num(first_r[8])) if s > 1 else None,
                    (num(last_r[9]), num(last_r[10]), num(last_r[11])) if e < length else None)
    return s, e, nxt, prv, step


def note_content(ctx, T, kind, content, seqorder, rv, s, e, length):
    """Evidence for the element-value and shown-order classes (output level: a judged window)."""
    name = content.partition(':')[0]
    ctx.table('content of judged windows', name)
    ctx.table('container of judged windows', T.hist[-1]['container'])
    if name != 'num':
        ctx.count('content:windows judged over elements that are not their own number')
    if e < length:
        # the element right after the window decides nothing: is it a false value?
        nxt_val = U.content_values(content, length)
        if not U.sorts(seqorder):
            if U.reverses(seqorder, rv):
                nxt_val = nxt_val[::-1]
            v = nxt_val[e]
            if v is None and kind == 'int':
                ctx.count('content:window with elements remaining whose next element is None')
            elif not v and kind in ('int', 'str', 'obj'):
                ctx.count('content:window with elements remaining whose next element is another false value')
    if s > 1 and name in ('none', 'falsy', 'holes'):
        ctx.count('content:window with false elements preceding')
    if seqorder:
        ctx.table('shown order of judged windows', seqorder)
        rev = U.reverses(seqorder, rv)
        if U.sorts(seqorder):
            ctx.count('order:windows judged over a sorted sequence')
        if rev:
            ctx.count('order:windows judged over a reversed sequence')
            if e == length:
                ctx.count('order:window reaching the end of a reversed sequence')
        if 'rexprv' in seqorder:
            if T.last_shown_reversed is not None and T.last_shown_reversed != rev:
                ctx.count('order:re-render of one compiled template with the reversal switched')
            T.last_shown_reversed = rev


def note_variant(ctx, T, vals, forms):
    """Evidence for the value-form and history classes (counted before the render)."""
    cfg = T.cfg
    how = cfg['how']
    text = tuple((k, vals[k]) for k in range(5) if how[k] == 'V' and forms[k] in 'sC')
    if text:
        ctx.count('forms:renders with a text-valued parameter')
        if T.last_text is not None and any(dict(T.last_text).get(k, v) != v for k, v in text):
            ctx.count('forms:re-render of one compiled template with a changed text value')
        T.last_text = text
    if any(how[k] == 'V' and forms[k] in 'cC' for k in range(5)):
        ctx.count('forms:renders with a callable-valued parameter')
    if 'L' in how or 'A' in how:
        ctx.count('config:renders with literal or absent attributes')


def note_judged(ctx, T, cfg, s, e, length):
    ctx.count('variants:windows judged')
    ctx.table('variant windows judged', T.name if T.name != 'random' else 'random configuration')
    ctx.count('layout:%s windows judged' % cfg['layout'])
    if cfg['prefix'] and cfg['mask']:
        ctx.count('prefix:windows judged through the prefix spelling')
        if cfg['mask'] & U.FLAG_BITS and e > s and (e < length or s > 1):
            ctx.count('prefix:flags read through the prefix spelling on a window of >=2 elements with a neighbour')
    if cfg['seqform'] in ('shorthand', 'expr='):
        ctx.count('config:expression form of the sequence')
    if cfg['items'] != 'int':
        ctx.count('config:non-int items (%s)' % cfg['items'])


MODE_ORDERS = (None, 'reverse', 'rexprv', 'sort+reverse', None, 'rexpr1', 'sort', 'sortx+rexprv')
MODE_CONTENTS = ('num', 'none', 'falsy', 'holes', 'perm')


def mode_source(m, prefix, seqorder=None):
    """<dtml-in seq previous|next ...>: the body once iff such a batch exists; variables dashed or prefix-spelled."""
    names = ['%s-sequence' % m, '%s-sequence-start-number' % m, '%s-sequence-end-number' % m,
             '%s-sequence-size' % m, '%s-sequence-start-index' % m, '%s-sequence-end-index' % m]
    body = 'B' + ''.join('|<dtml-var %s>' % U.spelled(n, prefix, True) for n in names)
    order = ''.join(' ' + a for a in U.order_attrs(U.cfg_of(seqorder=seqorder)))
    return ('<dtml-in seq %s%s start=st end=en size=sz orphan=orp overlap=ovl%s>%s<dtml-else>NONE</dtml-in>'
            % (m, order, ' prefix=%s' % prefix if prefix else '', body))


class ModeTemplates(dict):
    """(mode, prefix, seqorder) -> compiled template, compiled on first use and then long-lived."""

    def __init__(self, HTML):
        self.HTML = HTML

    def __missing__(self, key):
        t = self[key] = self.HTML(mode_source(*key))
        return t


def make_mode_templates(HTML):
    assert all(mode_source(m, None) == SRC_MODE[m] for m in SRC_MODE)
    mt = ModeTemplates(HTML)
    for m in ('previous', 'next'):
        for p in (None, 'p'):
            mt[m, p, None]
    return mt


def mode_dims(length, vals):
    """Spelling, value form, shown order and element content of the previous/next renders: a function of the
    parameters (replayable)."""
    h = length * 7 + vals[0] * 5 + vals[1] * 3 + vals[2] * 2 + vals[3] + vals[4]
    k = h % 4
    h2 = (h // 4 + length + vals[0]) % 40
    seqorder = MODE_ORDERS[h2 % 8]
    content = MODE_CONTENTS[h2 % 5]
    if U.sorts(seqorder) and content not in ('num', 'perm'):
        content = 'perm'
    if content != 'num':
        content += ':%d' % (h % 12)
    rv = U.RV_VALUES[h % len(U.RV_VALUES)] if seqorder and 'rexprv' in seqorder else None
    return k, seqorder, content, rv


def check_modes(ctx, mon, case, length, s, e, prev_ann, next_ann):
    """<dtml-in seq previous ...> / <dtml-in seq next ...> with the same parameters: the body once iff the
    window (as the plain rendering showed it, already judged against the model) has a neighbour on that side,
    announcing the same neighbour as the plain rendering did, with size = end+1-start and index = number-1.
    Spelling (dashed / prefix), value form (int / text), the order options (reverse / sort, which change what
    the elements of the window are but not which numbers it has) and what the elements are (numbers, None,
    other false values) are a function of the parameters (replayable)."""
    vals = (case['start'], case['end'], case['size'], case['orphan'], case['overlap'])
    k, seqorder, content, rv = mode_dims(length, vals)
    prefix = 'p' if k & 1 else None
    forms = 'sssss' if k & 2 else 'iiiii'
    ocfg = U.cfg_of(seqorder=seqorder)
    for m, ann in (('previous', prev_ann), ('next', next_ann)):
        seq = U.make_seq(length, case['container'] if case['container'] in ('tuple', 'seqobj') else 'list', 'int',
                         content)
        c2 = dict(case, mode=m, mode_prefix=prefix, mode_forms=forms, mode_order=seqorder, mode_content=content,
                  mode_rv=rv)
        try:
            out = mon.mode_templates[m, prefix, seqorder](seq=seq, **U.namespace(vals, forms, ocfg, rv))
        except Exception as ex:
            ctx.violation('%s-attribute render raised %s: %s' % (m, type(ex).__name__, str(ex)[:120]), c2,
                          key='mode_raise_%s_%d_%d_%d_%d_%d_%d' % (m, length, case['start'], case['end'],
                                                                case['size'], case['orphan'], case['overlap']))
            continue
        ctx.count('modes:%s attribute renders' % m)
        if prefix:
            ctx.count('modes:renders read through the prefix spelling')
        if k & 2:
            ctx.count('modes:renders with text-valued parameters')
        if seqorder:
            ctx.count('modes:renders with reverse / sort options')
        if content != 'num':
            ctx.count('modes:renders over elements that are not their own number')
        if ann is None:
            want = 'NONE'
        else:
            a, b, n = ann
            want = 'B|1|%d|%d|%d|%d|%d' % (a, b, b + 1 - a, a - 1, b - 1)
            ctx.count('modes:%s batch announced' % m)
            if m == 'next' and not U.sorts(seqorder):
                v = U.content_values(content, length)
                if U.reverses(seqorder, rv):
                    v.reverse()
                if e < length and not v[e]:
                    ctx.count('modes:next batch announced although the next element is a false value')
        if out != want and not (ann is not None and out.startswith('B|') and
                                [truthy(out.split('|')[1])] + out.split('|')[2:] == [True] + want.split('|')[2:]):
            ctx.violation('<dtml-in seq %s%s ...%s> (values as %s, elements %s) rendered %r, the plain rendering '
                          'of the same window %d..%d of %d announces %r'
                          % (m, ''.join(' ' + a for a in U.order_attrs(ocfg)), ' prefix=p' if prefix else '',
                             'text' if k & 2 else 'int', content, out[:80], s, e, length, want), c2,
                          key='mode_%s_%d_%d_%d_%d_%d_%d' % (m, length, case['start'], case['end'], case['size'],
                                                          case['orphan'], case['overlap']))


# ---------------------------------------------------------------- traversal
def traverse(ctx, mon, T, length, sz, orp, ovl, container, forms='iiiii', content='num', rv=None):
    """Follow next links from 1, then previous links back; bounded walks.  The link printed by the engine is fed
    back as the next start in the value form given (text = the way a query string delivers it).  The walk is over
    the shown order of the configuration (reverse / sort) and over whatever the elements are (content)."""
    case = {'mode': 'traverse', 'length': length, 'size': sz, 'orphan': orp, 'overlap': ovl,
            'container': container}
    if content != 'num':
        case['content'] = content
        ctx.count('traversals over elements that are not their own number')
    if rv is not None:
        case['rv'] = rv
    if T.cfg is not None and T.cfg.get('seqorder'):
        ctx.count('traversals over a reversed / sorted sequence')
    if T.cfg is not None:
        case.update(cfg=T.cfg, forms=forms, variant=T.name, src=T.src)
        ctx.count('traversals on a variant template')
        if 's' in forms or 'C' in forms:
            ctx.count('traversals feeding the link back as text')
    ctx.count('traversals')
    windows = []
    st = 1
    hops = 0
    while True:
        hops += 1
        if hops > length + 2:
            ctx.violation('next-link walk did not terminate within length+2 hops', case,
                          key='trav_loop_%d_%d_%d_%d' % (length, sz, orp, ovl))
            return
        r = check_window(ctx, mon, T, 'trav', length, st, 0, sz, orp, ovl, container, forms, content, rv)
        if r is None:
            return
        s, e, nxt, prv, step = r
        if s != st:
            ctx.violation('asked for start %d, window starts at %d' % (st, s), case)
            return
        windows.append((s, e, prv))
        if nxt is None:
            break
        st = nxt
    probs = []
    if windows[0][0] != 1:
        probs.append('walk does not begin at 1')
    if windows[-1][1] != length:
        probs.append('walk ends at %d, length %d' % (windows[-1][1], length))
    for (s1, e1, _), (s2, e2, _) in zip(windows, windows[1:]):
        shared = e1 - s2 + 1
        if shared != ovl:
            probs.append('neighbours %d..%d and %d..%d share %d, overlap=%d' % (s1, e1, s2, e2, shared, ovl))
        if not s2 > s1:
            probs.append('walk not advancing')
    covered = set()
    for s, e, _ in windows:
        covered.update(range(s, e + 1))
    if covered != set(range(1, length + 1)):
        probs.append('walk does not cover 1..length')
    # backward
    st = windows[-1][0]
    prv = windows[-1][2]
    hops = 0
    while st > 1:
        hops += 1
        if hops > length + 2:
            probs.append('previous-link walk did not reach 1 within length+2 hops')
            break
        if prv is None:
            probs.append('no previous link on window starting at %d' % st)
            break
        if not prv < st:
            probs.append('previous link %d does not move back from %d' % (prv, st))
            break
        r = check_window(ctx, mon, T, 'trav', length, prv, 0, sz, orp, ovl, container, forms, content, rv)
        if r is None:
            return
        st, prv = r[0], r[3]
    ctx.count('traversal_windows', len(windows))
    if probs:
        ctx.violation('; '.join(probs[:4]), case,
                      key='trav_%d_%d_%d_%d' % (length, sz, orp, ovl),
                      detail={'windows': windows})


def literal_source(st, en, sz, orp, ovl):
    parts = ['<dtml-in seq']
    for n, v in (('start', st), ('end', en), ('size', sz)):
        if v is not None:
            parts.append('%s=%d' % (n, v))
    if orp is not None:
        parts.append('orphan=%d' % orp)
    if ovl is not None:
        parts.append('overlap=%d' % ovl)
    return ' '.join(parts) + '>' + BODY + '<dtml-else>EMPTY</dtml-in>'


class Variants:
    """The long-lived variant templates of one shard and the cache of random configurations."""

    def __init__(self, HTML, rng):
        self.HTML = HTML
        self.rng = rng
        self.fixed = [U.T(HTML, U.build_source(cfg, (0, 0, 0, 0, 0)), cfg=cfg, name=name)
                      for name, cfg in U.designed_cfgs()]
        self.absent = [t for t in self.fixed if 'A' in t.cfg['how']]
        self.ordered = [t for t in self.fixed if t.cfg.get('seqorder')]
        self.cache = {}

    def pick(self, vals):
        """A designed variant that can take these values (absent attributes need default values)."""
        if self.rng.random() < 0.25:
            c = [t for t in self.absent if U.applicable(t.cfg, vals)]
            if c:
                return self.rng.choice(c)
        t = self.rng.choice(self.fixed)
        return t if U.applicable(t.cfg, vals) else self.fixed[0]

    def pick_ordered(self, vals):
        """A designed variant with a reverse / sort option that can take these values."""
        c = [t for t in self.ordered if U.applicable(t.cfg, vals)]
        return self.rng.choice(c)

    def random(self, vals):
        cfg = U.normalise(U.random_cfg(self.rng), vals)
        src = U.build_source(cfg, vals)
        t = self.cache.get(src)
        if t is None:
            if len(self.cache) > 2000:
                self.cache.clear()
            t = self.cache[src] = U.T(self.HTML, src, cfg=cfg, name='random')
        return t

    def container(self):
        return self.rng.choice(['list', 'list', 'tuple', 'iter', 'seqobj'])


def run(ctx, spec):
    from DocumentTemplate.DT_HTML import HTML
    from DocumentTemplate import DT_In, DT_InSV
    from vlib.reach import Reach
    reach = Reach()
    for label, owner, attr in (('DT_InSV.opt', DT_InSV, 'opt'), ('InClass.renderwb', DT_In.InClass, 'renderwb'),
                               ('sequence_variables.__getitem__', DT_InSV.sequence_variables, '__getitem__')):
        f = getattr(owner, attr, None)
        if f is not None:
            reach.watch(label, f)
    reach.start()
    mon = OptMonitor(ctx)
    mon.install()
    tmpl = U.T(HTML, SRC_VARS)
    tmpl.tmpl.cook()
    mon.mode_templates = make_mode_templates(HTML)
    rng = ctx.rng
    var = Variants(HTML, rng)
    g = GRID[ctx.tier]
    space = itertools.product(g['length'], g['start'], g['end'], g['size'], g['orphan'], g['overlap'])
    lit_cache = {}
    for i, (n, st, en, sz, orp, ovl) in enumerate(space):
        if i % ctx.nshards != ctx.shard:
            continue
        container = 'iter' if i % 8 == 3 else ('tuple' if i % 8 == 5 else 'list')
        check_window(ctx, mon, tmpl, 'vars', n, st, en, sz, orp, ovl, container)
        # the same grid point through one of the variant templates, values in a drawn form, over drawn elements
        t = var.pick((st, en, sz, orp, ovl))
        check_window(ctx, mon, t, 'variant', n, st, en, sz, orp, ovl,
                     var.container(), U.random_forms(rng), U.draw_content(rng, t.cfg), U.draw_rv(rng, t.cfg))
        if i % 16 == 7 and (st > 0 or en > 0 or sz > 0):
            # literal attributes; values <= 0 are written as absent attributes
            lit = (st if st > 0 else None, en if en > 0 else None, sz if sz > 0 else None,
                   orp, ovl)
            src = literal_source(*lit)
            t = lit_cache.get(src)
            if t is None:
                if len(lit_cache) > 2000:
                    lit_cache.clear()
                t = lit_cache[src] = U.T(HTML, src, literal=True, name='literal')
            ctx.count('literal-attribute renders')
            check_window(ctx, mon, t, 'literal', n, st, en, sz, orp, ovl, 'list')
        if (i // ctx.nshards) % 16 == 11:       # counted per shard, so every shard carries its share
            # a random configuration: literal / variable / absent per parameter (values <= 0 also as literals),
            # quoting, attribute order, sequence form, prefix spelling, layout, item kind
            ctx.count('config:random configurations rendered')
            t = var.random((st, en, sz, orp, ovl))
            check_window(ctx, mon, t, 'config', n, st, en, sz, orp, ovl,
                         var.container(), U.random_forms(rng), U.draw_content(rng, t.cfg), U.draw_rv(rng, t.cfg))
        if (i // ctx.nshards) % 8 == 5 and n:
            # the main template (exhaustive pass above: element k is k) over other elements
            check_window(ctx, mon, tmpl, 'elements', n, st, en, sz, orp, ovl, var.container(), 'iiiii',
                         U.draw_content(rng, None, p_num=0.0))
    # traversals: every (length,size,orphan,overlap) with overlap < effective size
    tspace = itertools.product(g['length'], g['size'], g['orphan'], g['overlap'])
    for i, (n, sz, orp, ovl) in enumerate(tspace):
        if i % ctx.nshards != ctx.shard or n == 0:
            continue
        eff = sz if sz >= 1 else 7
        if ovl < eff:
            traverse(ctx, mon, tmpl, n, sz, orp, ovl, 'iter' if i % 5 == 0 else 'list')
            if (i // ctx.nshards) % 2 == 0:
                # the same walk on a variant template, the link fed back as text (or in a drawn form)
                t = var.pick((1, 0, sz, orp, ovl))
                traverse(ctx, mon, t, n, sz, orp, ovl, var.container(),
                         rng.choice(['sssss', 'sssss', U.random_forms(rng)]),
                         U.draw_content(rng, t.cfg), U.draw_rv(rng, t.cfg))
            else:
                # the walk over other elements (main template), and over a reversed / sorted sequence
                traverse(ctx, mon, tmpl, n, sz, orp, ovl, var.container(), 'iiiii',
                         U.draw_content(rng, None, p_num=0.0))
                t = var.pick_ordered((1, 0, sz, orp, ovl))
                traverse(ctx, mon, t, n, sz, orp, ovl, var.container(), U.random_forms(rng),
                         U.draw_content(rng, t.cfg), U.draw_rv(rng, t.cfg))
    # seeded larger tuples
    nrand = (6000 if ctx.tier == 'quick' else 100000) // ctx.nshards
    for _ in range(nrand):
        n = rng.randint(0, 200)
        st = rng.choice([0, -3, rng.randint(1, 220), rng.randint(1, 220)])
        en = rng.choice([0, 0, -1, rng.randint(1, 220)])
        sz = rng.choice([0, -2, rng.randint(1, 40), rng.randint(1, 40)])
        orp = rng.randint(0, 12)
        ovl = rng.randint(0, 8)
        ctx.count('seeded larger tuples')
        check_window(ctx, mon, tmpl, 'rand', n, st, en, sz, orp, ovl,
                     rng.choice(['list', 'iter', 'list', 'iter', 'seqobj']), 'iiiii',
                     U.draw_content(rng, None, p_num=0.7))
        t = var.pick((st, en, sz, orp, ovl)) if rng.random() < 0.8 else var.random((st, en, sz, orp, ovl))
        check_window(ctx, mon, t, 'variant' if t.name != 'random' else 'config', n, st, en, sz, orp, ovl,
                     var.container(), U.random_forms(rng), U.draw_content(rng, t.cfg), U.draw_rv(rng, t.cfg))
        if n and rng.random() < 0.05:
            eff = sz if sz >= 1 else 7
            if ovl < eff:
                traverse(ctx, mon, tmpl, n, sz, orp, ovl, 'list', 'iiiii', U.draw_content(rng, None, p_num=0.5))
                t = var.pick((1, 0, sz, orp, ovl))
                traverse(ctx, mon, t, n, sz, orp, ovl, 'list', U.random_forms(rng),
                         U.draw_content(rng, t.cfg), U.draw_rv(rng, t.cfg))
    if ctx.shard == 0:
        ctx.sample({'template': SRC_VARS[:120] + '...', 'namespace': dict(seq='[1..5]', st=2, en=0, sz=2, orp=1, ovl=1),
                    'output': tmpl.tmpl(seq=[1, 2, 3, 4, 5], st=2, en=0, sz=2, orp=1, ovl=1)})
        for t in var.fixed[:12:3]:
            ctx.sample({'variant': t.name, 'template': t.src,
                        'namespace': dict(seq='[1..5]', st='2', en=0, sz='2', orp=1, ovl='1'),
                        'output': t.tmpl(seq=U.make_seq(5, 'list', t.cfg['items']), inner=list(U.INNER),
                                         st='2', en=0, sz='2', orp=1, ovl='1')})
    reach.stop()
    reach.report(ctx)


DECIDING = (
    # (counter, what is missing when it is zero) -- all output-level
    ('window:rendered', 'no batch window was rendered and judged'),
    ('window:asked with start&end', 'no window asked with start and end'),
    ('window:asked with start only', 'no window asked with start only'),
    ('window:asked with end only', 'no window asked with end only'),
    ('window:asked with neither', 'no window asked with neither start nor end'),
    ('links:next equation demanded', 'the next-batch equation was never demanded'),
    ('links:previous equation demanded', 'the previous-batch equation was never demanded'),
    ('traversals', 'no link traversal ran'),
    ('variants:windows judged', 'no window was judged through a variant template'),
    ('forms:re-render of one compiled template with a changed text value',
     'no compiled template was re-rendered with a changed text-valued parameter'),
    ('forms:renders with a callable-valued parameter', 'no callable-valued parameter was rendered'),
    ('prefix:flags read through the prefix spelling on a window of >=2 elements with a neighbour',
     'previous-/next-sequence were never read through the prefix spelling on a window with a neighbour'),
    ('layout:sparse windows judged', 'the sparse body layout was never judged'),
    ('layout:edge windows judged', 'the documented sequence-end/next-sequence idiom was never judged'),
    ('layout:nested windows judged', 'the nested-batch body layout was never judged'),
    ('layout:nestfault windows judged', 'the nested batch whose fault the body handles was never judged'),
    ('config:random configurations rendered', 'no random configuration was rendered'),
    ('config:renders with literal or absent attributes', 'no configuration with literal or absent attributes ran'),
    ('traversals feeding the link back as text', 'no traversal fed the link back as text'),
    ('modes:renders read through the prefix spelling', 'the previous/next forms were never read through a prefix'),
    ('modes:renders with text-valued parameters', 'the previous/next forms never got text values'),
    # what the elements are / the order they are shown in (all counted on judged windows)
    ('content:window with elements remaining whose next element is None',
     'no window was judged whose following element is None'),
    ('content:window with elements remaining whose next element is another false value',
     'no window was judged whose following element is a false value other than None'),
    ('content:window with false elements preceding', 'no window was judged with false elements before it'),
    ('order:windows judged over a sorted sequence', 'no window over a sorted sequence was judged'),
    ('order:windows judged over a reversed sequence', 'no window over a reversed sequence was judged'),
    ('order:window reaching the end of a reversed sequence',
     'no window reaching the end of a reversed sequence was judged'),
    ('order:re-render of one compiled template with the reversal switched',
     'no compiled template was re-rendered with reverse_expr switching'),
    ('traversals over elements that are not their own number', 'no traversal ran over None / false / permuted elements'),
    ('traversals over a reversed / sorted sequence', 'no traversal ran over a reversed / sorted sequence'),
    ('modes:renders with reverse / sort options', 'the previous/next forms were never combined with reverse / sort'),
    ('modes:next batch announced although the next element is a false value',
     'the next form was never rendered with a false element right after the window'),
)


def finish(agg):
    c = agg['counters']
    inc = []
    for key, why in DECIDING:
        if not c.get(key):
            inc.append(why)
    for m in ('previous', 'next'):
        if not c.get('modes:%s batch announced' % m):
            inc.append('the %s attribute form never announced a batch' % m)
    names = [name for name, _ in U.designed_cfgs()]
    judged = agg.get('tables', {}).get('variant windows judged', {})
    for name in names:
        if not judged.get(name):
            inc.append('variant template never judged: ' + name)
    contents = agg.get('tables', {}).get('content of judged windows', {})
    for name in U.CONTENTS:
        if not contents.get(name):
            inc.append('no window judged over the element content: ' + name)
    for cont in ('list', 'tuple', 'iter', 'seqobj'):
        if not agg.get('tables', {}).get('container of judged windows', {}).get(cont):
            inc.append('no window judged over the sequence type: ' + cont)
    orders = agg.get('tables', {}).get('shown order of judged windows', {})
    for so in U.SEQORDERS[1:]:
        if not orders.get(so):
            inc.append('no window judged under the order options: ' + so)
    # engine-internal monitors: diagnosis, never the reason for an inconclusive verdict
    diag = {}
    for k in ('opt:postcondition_evaluations', 'opt:branch start&end', 'opt:branch start only',
              'opt:branch end only', 'opt:branch neither', 'reach:DT_InSV.opt', 'reach:InClass.renderwb'):
        diag[k] = c.get(k, 0)
    g = GRID[agg['tier']]
    size = 1
    for v in g.values():
        size *= len(v)
    return {'inconclusive': inc,
            'coverage': {'exhaustive': True, 'grid': {k: [v[0], v[-1]] for k, v in g.items()},
                         'grid_points': size,
                         'variant_templates': names,
                         'internal_monitors_diagnosis_only': diag,
                         'element_contents': list(U.CONTENTS), 'order_options': list(U.SEQORDERS[1:]),
                         'explanation': 'exhaustive over the stated grid (main template, int values, element k is '
                                        'k); every grid point once more through a drawn variant template (incl. the '
                                        'reverse / sort variants), value form and element content (numbers, a '
                                        'permutation, None, false values, numbers with None holes); the random '
                                        'configurations and the seeded larger tuples are extra'}}


def rebuild(HTML, c):
    """The template of a recorded case, with its earlier calls repeated (history-dependent faults)."""
    if c.get('cfg') is not None:
        t = U.T(HTML, c['src'], cfg=c['cfg'], name=c.get('variant', 'replay'))
    elif c.get('src'):
        t = U.T(HTML, c['src'], literal=True, name='literal')
    else:
        t = U.T(HTML, SRC_VARS)
    for h in c.get('history', []):
        kind = t.cfg['items'] if t.cfg else 'int'
        try:
            render(t, U.make_seq(h['length'], h['container'], kind, h.get('content', 'num')), tuple(h['vals']),
                   h['forms'], h.get('rv'))
        except Exception:
            pass
        t.hist.append(h)
        t.renders += 1
    return t


def replay(ctx, rep):
    from DocumentTemplate.DT_HTML import HTML
    mon = OptMonitor(ctx)
    mon.install()
    c = rep['case']
    mon.mode_templates = make_mode_templates(HTML)
    if c.get('mode') in ('previous', 'next'):
        c = dict(c, mode='vars')        # the plain rendering is re-run first; it calls the attribute forms
    t = rebuild(HTML, c)
    if c.get('mode') == 'traverse':
        traverse(ctx, mon, t, c['length'], c['size'], c['orphan'], c['overlap'], c['container'],
                 c.get('forms', 'iiiii'), c.get('content', 'num'), c.get('rv'))
        return
    check_window(ctx, mon, t, c['mode'], c['length'], c['start'], c['end'], c['size'],
                 c['orphan'], c['overlap'], c['container'], c.get('forms', 'iiiii'), c.get('content', 'num'),
                 c.get('rv'))
