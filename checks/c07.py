"""C07 — the three surface syntaxes compile and render identically; entity equivalences.

Translation validation between three front ends sharing one back end: one abstract template
(vlib.tast) is printed by vlib.printer as <dtml-..>, <!--#..--> and %(..)x source in several random
styles each; every printing is cooked by the real HTML / String class; monitors:
  * the structural normal form (vlib.normal) of template._v_blocks — must be equal for all printings;
  * result / exception type+message / Recorder call trace on three namespaces — must be equal;
  * &dtml-n; and &dtml.m1.m2-n; against the <dtml-var n ...> spelling the documentation names;
  * grammar-violating mutants: accepted by one front end and rejected by another is a disagreement;
  * literal text that merely looks like the start of an entity reference / of a tag, in front of real tags
    (part D and a third of the random templates): must not change how the tags behind it are recognised.
Oracle: pairwise equality only (no model of what a tag *does* is needed or used).
"""
import itertools
import json
import random
import re

from vlib import normal
from vlib import printer
from vlib import tast
from vlib.common import Recorder

ID = 'C07'
LEVEL = 'translation_validation'
RULE = ('seeded random abstract templates (<= 12 nodes, block nesting <= 4) over every tag and every '
        'documented attribute, a share of them forced to contain each tag kind in turn; each is '
        'printed in the three syntaxes in 4 styles each (1 canonical + 3 random: whitespace runs, '
        'x / name=x / name="x", expr="." / "." shorthand, attribute-name case, end-tag arguments, '
        '/tag vs endtag, else arguments, %(x)s vs %(var x)s, [ vs !), cooked by the real classes and '
        'rendered on 3 namespaces; plus every entity &dtml[.m1[.m2[.m3]]]-name; over the 18 valueless '
        'var attributes against the <dtml-var> spelling (also directly behind look-alike text); plus '
        'classified grammar-violating mutants.  Literal text: every third template draws it from the '
        'alphabet extended by LOOK-ALIKES (text that merely looks like the start of an entity reference or '
        "of a tag: '&dtml-' / '&dtml.' followed by a character no entity name contains, '&dtml ', '<dtml ', "
        "'<dtml>', '<!-- #var x -->', '%( ', '%()' ...), and a dedicated part puts each look-alike fragment "
        'directly in front of a tag of each kind (top level, inside a block, in front of an end / '
        "continuation tag) with a ';' further on; counted: tags lying between a literal '&dtml-'/'&dtml.' "
        "and the next ';'. "
        'A case is distinct by its AST (or entity/context); non-trivial when it contains at least one tag')
ASSUMPTIONS = [
    "literal text is the same text in all three syntaxes unless it forms a tag there; '&dtml-' / '&dtml.' "
    "followed by anything but entity-name characters (letters, digits, '_', '-', '.') up to a ';' is no "
    "entity reference (a reference is &dtml-name; / &dtml.m1.m2-name;), '<dtml' without '-' and '<!--' "
    "without '#' are no tag starts, '%(' followed by a blank, ')' or '=' is no tag start (the tag name "
    'comes directly behind the parenthesis); nothing is demanded about WHAT such text renders to beyond '
    'being equal in every printing (literal conservation is C01)',
    'equivalence is demanded between spellings the docstrings show or name; attribute ORDER is part '
    'of the abstract template (never varied between printings)',
    'the bare "expr" shorthand is printed in HTML/SSI only (DESIGN C07 scoping decision); C-style '
    'formats after %(x) exist only in EPFS and belong to C15',
    'the parsed attribute dictionary of a tag keeps which spelling of the reference was used '
    "('' / name / expr key); the normal form folds that spelling away (vlib.normal._args) because the "
    'documentation declares the spellings equivalent; every other compiled attribute is compared',
    'cook-time error TEXT is not compared across front ends (it quotes the tag source); only '
    'accepted-vs-rejected must agree; render-time exception type and message must be equal',
]
SHARD_TIMEOUT = {'quick': 600, 'thorough': 3000}
NSHARDS = {'quick': 16, 'thorough': 48}
N_AST = {'quick': 4000, 'thorough': 60000}
STYLES = 4                      # printings per syntax: 1 canonical + 3 random
ENTITY_NAMES = ('s1', 's2', 'n1', 'f1', 'undef', 'x-y', 'sequence-item', 'nil')
ENTITY_CONTEXTS = (('', ''), ('<a href="', '">'), ('&', ';'), ('a &amp; ', ' &d'), ('<', '>'),
                   ('100% ', ' (x)'))
# Literal text that merely LOOKS like the start of a tag / entity reference.  Every fragment is plain text in
# all three syntaxes, alone and concatenated with any other fragment of the alphabets (vlib.tast) or placed
# next to a tag:
#   * behind every '&dtml-' / '&dtml.' the fragment itself goes on with a character no entity name can
#     contain (blank, '=', '&', '<', '"', ',', ':', line end) before it ends, so no ';' further on can
#     close a reference; no fragment contains ';' (the one exception is not a candidate: '&dtml;');
#   * '<dtml' / '</dtml' are never followed by '-', '<!--' never by '#';
#   * '%(' is directly followed by a blank, ')' or '=' (a tag has its name there).
# printer.printable(.., lookalikes=True) re-checks every generated text node against these rules.
LOOK_ENTITY = ('&dtml- ', '&dtml. ', '&dtml-=', '&dtml.=1 ', '&dtml-& ', '&dtml.&', 'Q&dtml-A session: ',
               '?a=1&dtml-size=20&sort=', 'see &dtml.foo bar and ', '&dtml-x y', '&dtml.html_quote-s1 ',
               '&dtml-s1,', '&dtml-s1\n', '&dtml-"', '&dtml-<b>', '&dtml.url_quote.upper-s2:',
               '&dtml-s1 &dtml.lower-s2 ', '&dtml--> ', '&dtml.- ', '&dtml-s1&')
LOOK_OTHER = ('&dtml ', '&dtml;', '&dtmlx ', '&dtml_s1 ', '<dtml ', '<dtml>', '</dtml>', '<dtml_var s1>',
              '<dtmlvar s1>', '< dtml-var s1>', '<!-- #var s1 -->', '<!-- ', '<!--x', '<!- #', '%( ', '%()',
              '%( s1)s', '%()s', '%(=')
TEXT_LOOKALIKE = LOOK_ENTITY + LOOK_OTHER
LOOK_SUFFIXES = (';', '; ', 'x=1;', ' &amp; ', '&#38;', ' ;\n', '-;', ' -->;', '>', ')s;', '-->', ')];')
N_LOOK = {'quick': 960, 'thorough': 9600}
ENTITY_LOOK_CONTEXTS = (('&dtml- ', ';'), ('u?a=1&dtml-size=20&s=', ';desc'), ('&dtml.foo bar ', ' ;'),
                        ('<dtml ', '>;'), ('%( ', ')s;'))
_CANDIDATE = re.compile(r'&dtml[-.]')
TEXT_WITH_LOOKALIKES = tast.TEXT_MIXED + TEXT_LOOKALIKE
EXPECTED_CLASSES = ('var', 'cond', 'Var', 'InClass', 'With', 'Let', 'Try', 'Raise', 'ReturnTag',
                    'Comment', 'Tree')
_ADDR = re.compile(r'0x[0-9a-fA-F]{6,}')


def plan(tier, seed):
    return [{} for _ in range(NSHARDS[tier])]


# ---------------------------------------------------------------- engine access
def classes():
    from DocumentTemplate.DT_HTML import HTML
    from DocumentTemplate.DT_String import String
    import TreeDisplay.TreeTag  # noqa: F401  registers the tree tag
    return {'HTML': HTML, 'String': String}


def cook(K, syntax, source):
    """-> (template, None) or (None, (exception type name, message))."""
    try:
        t = K[printer.TEMPLATE_CLASS[syntax]](source)
        t.cook()
        return t, None
    except Exception as e:            # cook-time rejection is data here, never a harness error
        return None, (type(e).__name__, str(e))


def scrub(s):
    return _ADDR.sub('0x', s)


def outcome(template, variant):
    """Render on namespace `variant`: ((kind, type name, text), call trace)."""
    rec = Recorder()
    ns = tast.namespace(variant, rec)
    try:
        r = template(None, ns)
        out = ('ok', type(r).__name__, scrub(r if isinstance(r, str) else repr(r)))
    except Exception as e:
        out = ('raise', type(e).__name__, scrub(str(e)))
    return out, [list(map(str, ev[:2])) + [repr(ev[2])] for ev in rec.events]


# ---------------------------------------------------------------- comparison core
def compare(ctx, K, printings, render=True):
    """printings: [(label, syntax, source)].  Returns a list of disagreement dicts (empty = agree).

    Counts every pairwise comparison made in `disagreements_checked`."""
    cooked = []
    for label, sx, src in printings:
        t, err = cook(K, sx, src)
        cooked.append((label, sx, src, t, err))
    problems = []
    ok = [c for c in cooked if c[3] is not None]
    rejected = [c for c in cooked if c[3] is None]
    ctx.count('disagreements_checked', max(0, len(cooked) - 1))
    if rejected and ok:
        problems.append({'kind': 'accept/reject',
                         'what': 'accepted by %s but rejected by %s: %s' % (
                             sorted({c[0] for c in ok}), sorted({c[0] for c in rejected}),
                             rejected[0][4][1][:200]),
                         'labels': sorted({c[0] for c in rejected})})
    if not ok:
        return problems, cooked, []
    # normal forms: equivalence classes
    nfs = []
    for label, sx, src, t, err in ok:
        nf = normal.normal(t._v_blocks)
        nfs.append((label, sx, nf, json.dumps(nf, sort_keys=True, default=repr)))
    ref = nfs[0]
    groups = {}
    for label, sx, nf, key in nfs:
        groups.setdefault(key, []).append(label)
    if len(groups) > 1:
        other = next(x for x in nfs if x[3] != ref[3])
        problems.append({'kind': 'normal-form',
                         'what': 'compiled programs differ between %s: %s' % (
                             ' | '.join(str(sorted(g)) for g in groups.values()),
                             normal.diff(ref[2], other[2])),
                         'labels': sorted(set(sum(list(groups.values())[1:], [])))})
    if render:
        for variant in range(tast.NAMESPACE_VARIANTS):
            outs = []
            for label, sx, src, t, err in ok:
                outs.append((label, outcome(t, variant)))
            ctx.count('renders', len(outs))
            ctx.count('disagreements_checked', max(0, len(outs) - 1))
            r0 = outs[0][1]
            ctx.count('outcome:' + r0[0][0])
            if r0[0][0] == 'raise':
                ctx.table('render exceptions', 'ns%d:%s' % (variant, r0[0][1]))
            else:
                ctx.table('render results', 'ns%d:%s' % (variant, r0[0][1]))
            ctx.table('call trace length', min(len(r0[1]), 10))
            bad = [(label, o) for label, o in outs if o != r0]
            if bad:
                label, o = bad[0]
                if o[0] != r0[0]:
                    what = 'namespace %d: %s gives %r, %s gives %r' % (
                        variant, outs[0][0], r0[0], label, o[0])
                else:
                    what = 'namespace %d: same result but call traces differ: %s %r, %s %r' % (
                        variant, outs[0][0], r0[1][:8], label, o[1][:8])
                problems.append({'kind': 'render', 'what': what[:600],
                                 'labels': sorted({b[0] for b in bad})})
    return problems, cooked, nfs


# ---------------------------------------------------------------- classifiers (known mechanisms)
def _var_named_var(body):
    """True when the AST inserts a variable literally named `var` with further arguments."""
    for n, _ in tast.walk(body):
        if n.kind == 'var' and n.ref.kind == 'name' and n.ref.text == 'var' and n.opts:
            return True
        if n.kind == 'entity' and n.name == 'var':
            return True
    return False


def _rename_var(body):
    obj = json.loads(json.dumps(tast.to_obj(body)))

    def fix(o):
        if isinstance(o, list):
            if len(o) >= 2 and o[0] == 'var' and isinstance(o[1], list) and o[1] == ['name', 'var']:
                o[1] = ['name', 'vax']
            elif len(o) >= 2 and o[0] == 'entity' and o[1] == 'var':
                o[1] = 'vax'
            for x in o:
                fix(x)
    fix(obj)
    return tast.from_obj(obj)


_CR_AFTER_REF = re.compile(r'(?:<dtml-|<!--#|%\()in[\x00- ]+([^\x00- ]+)\r')
_BARE_VAR_VAR = re.compile(r'(?:<dtml-var|<!--#var)[\x00- ]+var [\x00- ]*[^\x00- >-]'
                           r'|&dtml(?:\.[a-z_.]+)?-var;')
MECHANISMS = ('var-named-var', 'else-arg-cr')


def patterns(source, body):
    """Known-finding mechanisms whose syntactic pattern occurs in this printing."""
    out = set()
    if _BARE_VAR_VAR.search(source) and (body is None or _var_named_var(body)):
        # <dtml-var var more...>, <!--#var var more...-->, &dtml-var; : the bare name `var`, ONE
        # blank, further arguments (entities always put one blank)
        out.add('var-named-var')
    for m in _CR_AFTER_REF.finditer(source):
        # an in tag whose reference is directly followed by a carriage return (CR LF line end inside
        # the tag) and an else tag repeating exactly that reference
        ref = re.escape(m.group(1))
        if re.search(r'(?:<dtml-else|<!--#else|%\(else)[\x00- ]+' + ref + r'[\x00- >)-]', source):
            out.add('else-arg-cr')
    return out


def _reprint(body):
    """Fresh printings of `body` with every known mechanism taken out of the case."""
    return make_printings(_rename_var(body), random.Random(12345), style=printer.Style(ws_crlf=0.0))


def classify(ctx, K, body, printings, problems):
    """Mechanism keys of known findings explaining the disagreement ([] = unexplained).

    Narrow by construction:
      1. the disagreement must be confined to printings that carry the syntactic pattern of a known
         mechanism: all printings WITHOUT any pattern must agree with each other;
      2. a mechanism is reported only if a printing carrying its pattern disagrees with a clean one;
      3. with the known mechanisms taken out of the case (variable renamed, no CR LF inside tags)
         fresh printings of the same abstract template must not disagree at all."""
    if body is None:
        return []
    pats = {p[0]: patterns(p[2], body) for p in printings}
    if not any(pats.values()):
        return []
    clean = [p for p in printings if not pats[p[0]]]
    null = _NullCtx()
    if not clean or compare(null, K, clean)[0]:
        return []
    mechs = set()
    for p in printings:
        if pats[p[0]] and compare(null, K, [clean[0], p])[0]:
            mechs |= pats[p[0]]
    if not mechs or compare(null, K, _reprint(body))[0]:
        return []
    return sorted(mechs)


class _NullCtx:
    def count(self, *a, **k):
        pass

    table = count


# ---------------------------------------------------------------- printing
def make_printings(body, rng, styles=STYLES, style=None):
    out = []
    for sx in printer.SYNTAXES:
        for i in range(styles):
            p = printer.print_template(body, sx, rng if i else None, style)
            out.append(('%s/%d' % (sx, i), sx, p.source))
    return out


def report(ctx, K, part, body, printings, problems, extra=None):
    mechs = classify(ctx, K, body, printings, problems)
    kinds_ = '+'.join(sorted({p['kind'] for p in problems}))
    case = {'part': part, 'ast': None if body is None else tast.to_obj(body),
            'printings': [list(p) for p in printings]}
    if extra:
        case.update(extra)
    h = abs(hash(json.dumps(case['printings']))) % (10 ** 8)
    for mech in (mechs or [None]):
        ctx.violation('%s: %s' % (part, problems[0]['what']), case, mech=mech,
                      key='%s_%s_%08d' % (part, kinds_.replace('/', '-'), h),
                      detail={'problems': problems[:6], 'mechanisms': mechs})


# ---------------------------------------------------------------- part A: random ASTs
def lookalike_census(ctx, p):
    """Count, in Printed `p` (an HTML-class printing), the look-alike situations the property is decided on:
    a literal '&dtml-' / '&dtml.' that is no entity reference, followed by a real tag / entity that starts
    before the next ';' of the source (or with no ';' at all behind it)."""
    src = p.source
    n = 0
    for ti in p.texts:
        if '&dtml' not in ti.text:
            continue
        for m in _CANDIDATE.finditer(ti.text):
            c = ti.start + m.start()
            semi = src.find(';', c)
            form = 'dash' if m.group(0)[-1] == '-' else 'dot'
            where = 'in comment' if ti.in_comment else 'depth %d' % min(ti.depth, 3)
            ctx.table('look-alike candidates', '%s | %s' % (form, where))
            if semi < 0:
                ctx.count('lookalike:candidate with no ; behind it')
                continue
            tags = [t for t in p.tags if c < t.start < semi]
            if not tags:
                ctx.count('lookalike:candidate, no tag before the next ;')
                continue
            n += 1
            ctx.count('lookalike:candidate, then tag(s), then ; (%s form)' % form)
            for t in tags:
                ctx.table('tags between a look-alike and the next ;', '%s:%s:%s' % (p.syntax, t.role, t.name))
    return n


def check_ast(ctx, K, body, rng, want_sample=False, part='ast'):
    why = printer.printable(body, lookalikes=True)
    if why:
        ctx.count('discarded_unprintable')
        return
    ks = tast.kinds(body)
    ctx.case((part, tast.to_obj(body)), nontrivial=any(k != 'text' for k in ks))
    ctx.count('programs')
    if part != 'ast':
        ctx.count('programs:' + part)
    for k in ks:
        ctx.table('ast node kinds', k)
    for n, _ in tast.walk(body):
        for a, v in getattr(n, 'opts', ()):
            ctx.table('attributes', '%s:%s%s' % (n.kind, a, '' if v is not None else ' (valueless)'))
        if n.kind == 'entity':
            for m in n.mods:
                ctx.table('attributes', 'entity:.%s' % m)
    printings = []
    lit_mismatch = 0
    for sx in printer.SYNTAXES:
        for i in range(STYLES):
            p = printer.print_template(body, sx, rng if i else None)
            printings.append(('%s/%d' % (sx, i), sx, p.source))
            for s in p.styles_used:
                ctx.table('style variations', '%s:%s' % (sx, s))
            printings[-1] = printings[-1] + (p,)
            if i == 0 and sx != 'epfs':
                if lookalike_census(ctx, p):
                    ctx.count('lookalike:programs with a tag between a look-alike and the next ; (%s)' % sx)
    problems, cooked, nfs = compare(ctx, K, [p[:3] for p in printings])
    byl = {p[0]: p[3] for p in printings}
    for label, sx, nf, key in nfs:
        for c in normal.tag_classes(nf):
            ctx.table('compiled', '%s:%s' % (sx, c))
        # printer self-check (not verdict bearing here; C01 owns literal conservation)
        if normal.literal_tree(nf) != byl[label].literals:
            lit_mismatch += 1
    if lit_mismatch and not problems:
        ctx.count('printer_literal_tree_mismatches', lit_mismatch)
    if not any(c[3] is not None for c in cooked):
        ctx.count('valid AST rejected by all front ends')
        ctx.table('rejected by all', cooked[0][4][1].split(', for tag')[0][:80])
    if problems:
        report(ctx, K, part, body, [p[:3] for p in printings], problems)
    elif want_sample:
        t = cooked[0][3]
        ctx.sample({'ast': tast.to_obj(body),
                    'sources': {p[0]: p[2] for p in printings if p[0].endswith('/1')},
                    'outcome_ns0': outcome(t, 0)[0] if t is not None else None,
                    'agreeing_printings': len(printings)})
    return problems


# ---------------------------------------------------------------- part D: look-alike text in front of tags
def body_lists(body):
    yield body
    for n in body:
        for b in n.bodies():
            yield from body_lists(b)


def lookalike_template(rng, kind, fragment, suffix):
    """A small template that contains a tag of `kind`, with the look-alike `fragment` put directly in
    front of a tag (any tag, at any depth) or at the very end of a block body (= in front of the end or
    continuation tag), and literal text with a ';' at the end of the template."""
    body = tast.gen_template(rng, max_nodes=6, max_depth=2, focus=kind)
    lists = list(body_lists(body))
    spots = []
    for li, lst in enumerate(lists):
        for pos, n in enumerate(lst):
            if n.kind != 'text':
                spots.append((lst, pos))
        if li:                          # a block body: its end is followed by a tag
            spots.append((lst, len(lst)))
    lst, pos = rng.choice(spots)
    lst.insert(pos, tast.Text(fragment))
    body.append(tast.Text(suffix))
    return tast.merge_text(body)


def check_lookalikes(ctx, K, rng, n):
    kinds_ = [k for k in tast.ALL_KINDS if k != 'text']
    for i in range(n):
        j = i * ctx.nshards + ctx.shard
        kind = kinds_[j % len(kinds_)]
        # mostly the entity look-alikes; the <dtml / <!-- / %( ones are the cheap siblings
        pool = LOOK_ENTITY if j % 4 else LOOK_OTHER
        fragment = pool[(j // len(kinds_)) % len(pool)]
        suffix = LOOK_SUFFIXES[rng.randrange(len(LOOK_SUFFIXES))]
        body = lookalike_template(rng, kind, fragment, suffix)
        ctx.count('lookalike_cases')
        ctx.table('look-alike fragment x focus kind', '%r | %s' % (fragment, kind))
        check_ast(ctx, K, body, rng, part='lookalike')


# ---------------------------------------------------------------- part B: entities
def entity_cases(tier):
    mods = tast.ENTITY_MODS
    seqs = [()]
    seqs += [(m,) for m in mods]
    if tier == 'thorough':
        seqs += list(itertools.permutations(mods, 2))
        seqs += list(itertools.permutations(mods, 3))
    else:
        seqs += list(itertools.combinations(mods, 2))
        seqs += list(itertools.combinations(mods, 3))
    return seqs


def check_entity(ctx, K, name, mods, context, rng):
    ent = tast.Entity(name, mods)
    var = ent.as_var()
    pre, post = context
    wrap = lambda n: ([tast.Text(pre)] if pre else []) + [n] + ([tast.Text(post)] if post else [])  # noqa: E731
    ctx.case(('entity', name, mods, context))
    ctx.count('entity_cases')
    ctx.table('entity modifier count', len(mods))
    eb, vb = wrap(ent), wrap(var)
    printings = [('entity/html', 'html', printer.print_template(eb, 'html').source)]
    for sx in printer.SYNTAXES:
        printings.append(('var/%s/0' % sx, sx, printer.print_template(vb, sx).source))
        printings.append(('var/%s/1' % sx, sx, printer.print_template(vb, sx, rng).source))
    problems, cooked, nfs = compare(ctx, K, printings)
    for label, sx, nf, key in nfs[:1]:
        for c in normal.tag_classes(nf):
            ctx.table('compiled', 'entity:%s' % c)
    if problems:
        report(ctx, K, 'entity', eb, printings, problems,
               extra={'entity': [name, list(mods)], 'context': list(context)})
    return problems


# ---------------------------------------------------------------- part C: rejected mutants
def check_mutants(ctx, K, body, rng):
    for label, mutant in tast.semantic_mutations(rng, body):
        if printer.printable(mutant, lookalikes=True):
            continue
        printings = []
        for sx in printer.SYNTAXES:
            printings.append(('%s/0' % sx, sx, printer.print_template(mutant, sx).source))
            printings.append(('%s/1' % sx, sx, printer.print_template(mutant, sx, rng).source))
        ctx.case(('mutant', label, tast.to_obj(mutant)))
        ctx.count('mutant_programs')
        ctx.table('mutation classes', label)
        res = [(lab, sx, src) + cook(K, sx, src) for lab, sx, src in printings]
        ctx.count('disagreements_checked', len(res) - 1)
        acc = [r for r in res if r[3] is not None]
        rej = [r for r in res if r[3] is None]
        for r in rej:
            ctx.table('mutant rejections', '%s:%s:%s' % (label, r[1], r[4][0]))
        if acc and rej:
            problems = [{'kind': 'accept/reject', 'labels': sorted(r[0] for r in acc),
                         'what': 'mutant (%s) accepted by %s, rejected by %s (%s)' % (
                             label, sorted(r[0] for r in acc), sorted(r[0] for r in rej),
                             rej[0][4][1][:160])}]
            report(ctx, K, 'mutant', mutant, printings, problems, extra={'mutation': label})
        elif acc:
            ctx.count('mutant accepted by all front ends (C06 business)')
            ctx.table('mutants accepted by all', label)


_LEAD = {'html': re.compile(r'</?dtml-'), 'ssi': re.compile(r'<!--#(?:(?:/|[eE][nN][dD]) ?)?'),
         'epfs': re.compile(r'%\(')}
STRUCT_MUTATIONS = ('wrong-end-tag', 'deleted-end-tag', 'deleted-start-tag')


def structural_mutant(p, which, k):
    """Apply structural mutation `which` to the k-th block of Printed `p`; None if not applicable.

    The tag lists of the printings of one AST are aligned (same order in every syntax), so the same
    (which, k) is the same abstract mutation in each syntax.  Every mutant is unbalanced, hence must be
    rejected by every front end."""
    closes = [t for t in p.tags if t.role == 'close']
    if not closes:
        return None
    close = closes[k % len(closes)]
    src = p.source
    if which == 'deleted-end-tag':
        return src[:close.start] + src[close.end:]
    if which == 'deleted-start-tag':
        op = next(t for t in p.tags if t.role == 'open' and t.node is close.node)
        return src[:op.start] + src[op.end:]
    tag = src[close.start:close.end]
    m = _LEAD[p.syntax].match(tag)
    if not m or not tag[m.end():].startswith(close.name):
        return None
    other = 'in' if close.name != 'in' else 'if'
    return src[:close.start] + tag[:m.end()] + other + tag[m.end() + len(close.name):] + src[close.end:]


def check_structural(ctx, K, body, rng):
    ps = []
    for sx in printer.SYNTAXES:
        ps.append(('%s/0' % sx, printer.print_template(body, sx)))
        ps.append(('%s/1' % sx, printer.print_template(body, sx, rng)))
    k = rng.randrange(64)
    for which in STRUCT_MUTATIONS:
        printings = []
        for label, p in ps:
            m = structural_mutant(p, which, k)
            if m is None:
                break
            printings.append((label, p.syntax, m))
        if len(printings) != len(ps):
            continue
        ctx.case(('structural', which, k, tast.to_obj(body)))
        ctx.count('mutant_programs')
        ctx.table('mutation classes', which)
        res = [(lab, sx, src) + cook(K, sx, src) for lab, sx, src in printings]
        ctx.count('disagreements_checked', len(res) - 1)
        acc = [r for r in res if r[3] is not None]
        rej = [r for r in res if r[3] is None]
        for r in rej:
            ctx.table('mutant rejections', '%s:%s:%s' % (which, r[1], r[4][0]))
        if acc and rej:
            problems = [{'kind': 'accept/reject', 'labels': sorted(r[0] for r in acc),
                         'what': 'mutant (%s) accepted by %s, rejected by %s (%s)' % (
                             which, sorted(r[0] for r in acc), sorted(r[0] for r in rej),
                             rej[0][4][1][:160])}]
            report(ctx, K, 'mutant', None, printings, problems, extra={'mutation': which})
        elif acc:
            ctx.count('mutant accepted by all front ends (C06 business)')
            ctx.table('mutants accepted by all', which)


# ---------------------------------------------------------------- run
def watch_anchors(reach, K):
    from DocumentTemplate import DT_HTML
    S, H = K['String'], K['HTML']
    reach.watch('String.parse', S.parse)
    reach.watch('String.parse_block', S.parse_block)
    reach.watch('String.parseTag', S.parseTag)
    reach.watch('String.varExtra', S.varExtra)
    reach.watch('HTML.parseTag', H.parseTag)
    reach.watch('HTML.varExtra', H.varExtra)
    reach.watch('dtml_re_class.search', DT_HTML.dtml_re_class.search)


def run(ctx, spec):
    from vlib.reach import Reach
    K = classes()
    reach = Reach()
    watch_anchors(reach, K)
    reach.start()
    rng = ctx.rng
    n = N_AST[ctx.tier] // ctx.nshards
    focus_cycle = list(tast.ALL_KINDS)
    for i in range(n):
        focus = focus_cycle[(i + ctx.shard) % len(focus_cycle)] if i % 3 == 0 else None
        # every third template draws its literal text from the alphabet extended by the look-alikes
        text = TEXT_WITH_LOOKALIKES if i % 3 == 1 else tast.TEXT_MIXED
        body = tast.gen_template(rng, max_nodes=12, max_depth=4, focus=focus, text=text)
        check_ast(ctx, K, body, rng, want_sample=(i in (1, 7) and ctx.shard < 3))
        if i % 8 == 5:
            check_mutants(ctx, K, body, rng)
        if i % 8 == 2 and not printer.printable(body, lookalikes=True):
            check_structural(ctx, K, body, rng)
    check_lookalikes(ctx, K, rng, N_LOOK[ctx.tier] // ctx.nshards)
    # entities: the whole modifier space, sharded by index
    seqs = entity_cases(ctx.tier)
    for j, mods in enumerate(seqs):
        if j % ctx.nshards != ctx.shard:
            continue
        name = ENTITY_NAMES[j % len(ENTITY_NAMES)]
        context = ENTITY_CONTEXTS[(j // len(ENTITY_NAMES)) % len(ENTITY_CONTEXTS)]
        check_entity(ctx, K, name, mods, context, rng)
        if len(mods) <= 1:
            for name in ENTITY_NAMES:
                for context in ENTITY_CONTEXTS[:3]:
                    check_entity(ctx, K, name, mods, context, rng)
            # the entity right behind text that merely looks like the start of one (or of a tag)
            for k, name in enumerate(ENTITY_NAMES):
                context = ENTITY_LOOK_CONTEXTS[(j + k) % len(ENTITY_LOOK_CONTEXTS)]
                ctx.count('entity_cases:behind a look-alike')
                check_entity(ctx, K, name, mods, context, rng)
    reach.stop()
    reach.report(ctx)


def finish(agg):
    c = agg['counters']
    t = agg['tables']
    inc = []
    # reach counters of engine internals are diagnosis: the verdict rests on comparisons of compiled
    # programs and of outputs, so a renamed internal only matters when those did not evaluate either
    diagnosis = []
    for r in ('reach:String.parse', 'reach:String.parse_block', 'reach:String.parseTag',
              'reach:HTML.parseTag', 'reach:dtml_re_class.search', 'reach:String.varExtra',
              'reach:HTML.varExtra'):
        if not c.get(r):
            diagnosis.append('anchor never entered: ' + r)
    output_level = all(c.get(k) for k in ('programs', 'entity_cases', 'renders', 'disagreements_checked'))
    if not output_level:
        inc.extend(diagnosis)
    # ---- look-alike text (decided by the same output comparisons; these say the class was produced)
    if not c.get('lookalike_cases') or not c.get('programs:lookalike'):
        inc.append('no template with look-alike text in front of a tag was compared')
    for form in ('dash', 'dot'):
        if not c.get('lookalike:candidate, then tag(s), then ; (%s form)' % form):
            inc.append("no compared template had a tag between a literal '&dtml%s' and the next ';'"
                       % ('-' if form == 'dash' else '.'))
    between = t.get('tags between a look-alike and the next ;', {})
    for sx in ('html', 'ssi'):
        for role in ('single', 'open', 'cont', 'close') + (('entity',) if sx == 'html' else ()):
            if not any(k.startswith('%s:%s:' % (sx, role)) for k in between):
                inc.append('no %s tag of role %r between a look-alike and the next ; in syntax %s'
                           % (sx, role, sx))
    if not c.get('lookalike:candidate, no tag before the next ;'):
        inc.append('no look-alike without a tag before the next ; was compared')
    if not c.get('entity_cases:behind a look-alike'):
        inc.append('no entity equivalence behind look-alike text was evaluated')
    if not c.get('programs'):
        inc.append('no abstract template was compared')
    if not c.get('entity_cases'):
        inc.append('no entity equivalence was evaluated')
    if not c.get('renders'):
        inc.append('nothing was rendered')
    compiled = t.get('compiled', {})
    for cls in EXPECTED_CLASSES:
        for sx in printer.SYNTAXES:
            if not compiled.get('%s:%s' % (sx, cls)):
                inc.append('tag class %s never compiled in syntax %s' % (cls, sx))
    styles = t.get('style variations', {})
    for sx in printer.SYNTAXES:
        if not any(k.startswith(sx + ':') for k in styles):
            inc.append('no style variation exercised in syntax ' + sx)
    for k in ('ok', 'raise'):
        if not c.get('outcome:' + k):
            inc.append('no render with outcome %r' % k)
    if c.get('printer_literal_tree_mismatches'):
        inc.append('printer self-check: %d printings whose literal tree is not the one the printer '
                   'predicted although all front ends agree (printer or C01 problem)'
                   % c['printer_literal_tree_mismatches'])
    return {'inconclusive': inc,
            'coverage': {'programs': c.get('programs', 0) + c.get('entity_cases', 0)
                         + c.get('mutant_programs', 0),
                         'programs_ast': c.get('programs', 0) - c.get('programs:lookalike', 0),
                         'programs_entity': c.get('entity_cases', 0),
                         'programs_mutant': c.get('mutant_programs', 0),
                         'programs_lookalike': c.get('programs:lookalike', 0),
                         'lookalike_then_tag_then_semicolon':
                             c.get('lookalike:candidate, then tag(s), then ; (dash form)', 0)
                             + c.get('lookalike:candidate, then tag(s), then ; (dot form)', 0),
                         'diagnosis': diagnosis,
                         'disagreements_checked': c.get('disagreements_checked', 0),
                         'printings_per_program': STYLES * len(printer.SYNTAXES),
                         'namespaces_per_program': tast.NAMESPACE_VARIANTS,
                         'exhaustive': False,
                         'entity_space': 'all %s sequences of <= 3 of the %d valueless var attributes'
                                         % ('ordered' if agg['tier'] == 'thorough' else 'unordered',
                                            len(tast.ENTITY_MODS)),
                         'explanation': 'pairwise equality of compiled normal forms, results and '
                                        'call traces over seeded programs; no claim beyond them'}}


def replay(ctx, rep):
    K = classes()
    c = rep['case']
    body = tast.from_obj(c['ast']) if c.get('ast') else None
    printings = [tuple(p) for p in c['printings']]
    if c.get('part') == 'mutant':
        res = [(lab, sx, src) + cook(K, sx, src) for lab, sx, src in printings]
        acc = [r for r in res if r[3] is not None]
        rej = [r for r in res if r[3] is None]
        if acc and rej:
            report(ctx, K, 'mutant', body, printings,
                   [{'kind': 'accept/reject', 'labels': sorted(r[0] for r in acc),
                     'what': 'mutant accepted by %s, rejected by %s (%s)' % (
                         sorted(r[0] for r in acc), sorted(r[0] for r in rej), rej[0][4][1][:160])}],
                   extra={'mutation': c.get('mutation')})
        return
    problems, cooked, nfs = compare(ctx, K, printings)
    ctx.case(('replay', c.get('part')))
    if problems:
        report(ctx, K, c.get('part', 'ast'), body, printings, problems)
