#!/bin/bash
# setup_cmd: offline install of the contract libraries beside the repository's
# interpreter (git-ignored .deps).  Idempotent; ./check runs it when .deps is absent.
HERE="$(cd "$(dirname "$0")" && pwd)"
cd "$HERE" || exit 1
mkdir -p .deps evidence
if [ ! -d .deps/icontract ]; then
    PIP_NO_INDEX=1 /venv/bin/pip install --quiet --no-index \
        --find-links /opt/veriftools/wheels --target "$HERE/.deps" icontract deal \
        || { echo "setup: offline install of icontract/deal failed (checks still run; contracts inactive)"; }
fi
/venv/bin/python -c "import DocumentTemplate, sys; print('setup ok:', DocumentTemplate.__file__)"
